#!/usr/bin/env python3
"""Regenerates MANIFEST.json from the table below (kept in one place so it stays valid)."""
import json, os
V = os.path.dirname(os.path.dirname(os.path.abspath(__file__)))

CLAIMED = {
 "C01": ("exploration", "§3 C01", "seeded histories of create/update/release/recharge against the whole system; identity account+reservation = credited - cost x usage checked after every op from observable quantities",
         "accounting identity invariant over seeded operation histories in deterministic whole-system simulation"),
 "C02": ("exploration", "§3 C02", "seeded multi-session histories (drawn host time zone, partial records, record splits); in-memory records and every written CDR file image read back by an independent BER/TS 32.297 reader and compared with the containers the harness reported per session",
         "exactly-once / attribution history check with an independent CDR reader in deterministic simulation"),
 "C03": ("exploration", "§3 C03", "size-biased seeded histories; every file image ever written (simulated disk journal) parsed by an independent TS 32.297 + BER reader",
         "well-formedness invariant over every journalled disk write in deterministic simulation"),
 "C06": ("exploration", "§3 C06", "seeded conforming-consumer histories with scarce balances; no-overdraft invariant and grant bound computed from observable balance, reservation, usage and tariff",
         "no-overdraft / grant-bound invariant over seeded histories in deterministic whole-system simulation"),
 "C07": ("exploration", "§3 C07", "seeded CCR sequences from a real go-diameter client over the simulated network to the real ABMF handler; compared message by message with a sequential reference model of the balances",
         "refinement against a small sequential reference model over simulated Diameter transport"),
 "C08": ("exploration", "§3 C08", "seeded SUR sequences and per-run drawn stored tariffs against the real RF handler over the simulated network; exact pricing, CHF-side tariff agreement and bounded-time answers (server keeps serving)",
         "exact-arithmetic oracle plus bounded liveness over simulated Diameter transport"),
 "C09": ("exploration", "§3 C09", "2..16 concurrent tasks released at seed-derived simulated offsets with seed-decided yields and lock hand-over, race-instrumented build; quiescent accounting identity, exactly-once records, usable sessions, no race report in CHF code, no crash, no deadlock",
         "seeded schedule search with the race detector and quiescent-state invariants in deterministic simulation"),
 "C10": ("exploration", "§3 C10", "adversarial identifiers, sequential and concurrent creates (seed-decided interleaving around the global counter); live references pairwise distinct, each reference acts on the record its create opened",
         "uniqueness / stability invariant over seeded histories and schedules in deterministic simulation"),
 "C11": ("exploration", "§3 C11", "schema-derived request mutations on every route in drawn subscriber states, each followed by well-formed requests for the same subscriber under a simulated deadline",
         "no-5xx invariant plus bounded liveness of follow-up requests (lock leak = simulated-time wedge) in deterministic simulation"),
 "C12": ("exploration", "§3 C12", "seeded histories mixing valid requests with unknown/stale/foreign references and recharges; status/Location/body contract, full state snapshot equality around rejected requests, exactly-one notification at a simulated SMF",
         "contract + no-effect (snapshot equality) history check in deterministic whole-system simulation"),
 "C18": ("exploration", "§3 C18", "histories of N=10/100(/1000) updates followed by simulated idle time; exact census of open simulated connections and live tasks must stay under a fixed bound and not grow with N",
         "resource-census invariant over histories of growing length with a simulated network that owns every connection"),
 "C19": ("fault_enumeration", "§3 C19", "all single (thorough: pairs + seeded plans) withheld/delayed/dropped/stalled/reset Diameter answers and requests over create+K updates; un-faulted follow-ups must complete promptly and act on the answer to their own request (matched on the wire)",
         "enumerated and seeded fault placement on a message-aware simulated Diameter transport; bounded liveness and answer-attribution oracle"),
}

NA = {
 "C04": "pure function of its input (BER encoder conformance): no schedule, clock, I/O or fault in the statement — nothing for a simulator to decide",
 "C05": "pure function composition decode(encode(v)) over values and types: no schedule, clock, I/O or fault",
 "C13": "function of (service list, request) on a router built once, sequentially, before serving: no interleaving, timer or fault in the statement",
 "C14": "quantified over file structures only; the file system is incidental and no fault is in the statement",
 "C15": "pure function of the file structure (byte layout conformance)",
 "C16": "pure function of a byte slice (decoder safety on arbitrary bytes, not a stream): input enumeration/fuzzing territory, a different technique family",
 "C17": "pure marshal/unmarshal fidelity plus a static consistency condition between three tables",
 "C20": "function of the configuration value; start-up is sequential, no schedule, clock or fault in the statement",
}

def main(active):
    checks = []
    for pid in sorted(CLAIMED):
        if pid not in active:
            continue
        cat, ref, text, tech = CLAIMED[pid]
        checks.append(dict(
            property_id=pid,
            quick_cmd="bin/check %s --tier quick" % pid,
            thorough_cmd="bin/check %s --tier thorough" % pid,
            evidence_file="evidence/%s.json" % pid,
            replay_cmd_template="bin/check replay {path}",
            engine="chf-dsim",
            level_claimed=dict(category=cat, text=text, design_ref=ref),
            level_note="sampling over seeds, not proof; real CHF/RF/ABMF/go-diameter code under go1.26.8 testing/synctest fake clock; MongoDB, TCP/TLS, HTTP/2 listener, SMF and disk are simulated stand-ins; see evidence.coverage.components",
            technique=tech))
    na = [dict(property_id=k, reason=v) for k, v in sorted(NA.items())]
    for pid in sorted(CLAIMED):
        if pid not in active:
            na.append(dict(property_id=pid, reason="simulation check not yet registered in this revision (planned, see DESIGN.md §3); not claimed until it runs clean on the unchanged tree"))
    m = dict(
        version=1,
        setup_cmd="bin/setup.sh",
        hooks=dict(
            guard="none (no hook is committed in /repo)",
            enable="checks build /repo's current working tree with `go test -c -overlay` (source instrumentation generated at check time by bin/instrument: sync.Mutex->rt.Mutex, os.WriteFile->rt.WriteFile, inserted rt.Yield) and `-modfile` (replace lines selecting the patched copies of go-diameter and free5gc/util under third_party/); nothing in /repo is edited",
            baseline_off_cmd="cd /repo && GOFLAGS=-mod=mod GOPROXY=off GOSUMDB=off go test -vet=off -count=1 ./...",
            source_commits=[],
            add_only=True),
        engines=[dict(name="chf-dsim", path="sim/", serves_properties=sorted(active),
                      kind_free_text="deterministic whole-system simulation: testing/synctest fake clock, seeded simulated Diameter network with message-aware fault rules, in-memory DB/disk, seed-decided lock hand-over and yields; seeded search + delta-debugging minimiser + replay files")],
        checks=checks,
        not_applicable=na,
        notes="Known findings (genuine defects recorded, not repaired) are listed in known_findings.json; repaired defects are 'fix:' commits in /repo and 'fixed:' lines in the same file.")
    with open(os.path.join(V, "MANIFEST.json"), "w") as f:
        json.dump(m, f, indent=1)

if __name__ == "__main__":
    import sys
    main(set(sys.argv[1:]))
