#!/bin/bash
# try_benign.sh <patch.diff> [PROPS...]  — apply a change that is meant to keep every property
# true to the repository (default /repo, or $VERIF_REPO), run the baseline suite and the quick
# tier of every (or the named) check against it, undo it.  Any VIOLATION line is a false alarm
# to be investigated (or the change is not benign after all).
P="$(readlink -f "$1")"; shift
PROPS="${*:-C01 C02 C03 C06 C07 C08 C09 C10 C11 C12 C18 C19}"
export GOFLAGS=-mod=mod GOPROXY=off GOSUMDB=off
VERIF="$(cd "$(dirname "$0")/.." && pwd)"
REPO="${VERIF_REPO:-/repo}"
cd "$REPO" || exit 2
if [ -n "$(git status --porcelain)" ]; then echo "try_benign: $REPO not clean" >&2; exit 2; fi
git apply "$P" || { echo "try_benign: patch does not apply"; exit 2; }
trap 'git -C "$REPO" checkout -- . ; git -C "$REPO" clean -fdq' EXIT
go build ./... >/dev/null 2>&1 || { echo "BENIGN $(basename $(dirname $P)): DOES-NOT-BUILD"; exit 0; }
if [ -n "${TRY_SKIP_SUITE:-}" ]; then T=skipped; else T=$(go test -vet=off -count=1 ./... 2>&1 | grep -c "^FAIL"); fi
echo "BENIGN $(basename $(dirname $P)): suite_fail_pkgs=$T"
for PROP in $PROPS; do
  OUT=$(VERIF_REPO="$REPO" VERIF_EVIDENCE_DIR=/tmp/mutant-evidence "$VERIF/bin/check" $PROP --tier quick 2>&1)
  RC=$?
  V=$(echo "$OUT" | grep -A1 "^VIOLATION" | grep -v "^VIOLATION\|^--" | head -4 | tr '\n' ';')
  echo "  $PROP rc=$RC $(echo "$OUT" | grep '^check:' | tail -1 | sed 's/check: //') :: $V"
done
