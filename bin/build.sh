#!/bin/bash
# build.sh <scratch-dir> [race]  — instrument /repo's current working tree and build the
# simulation test binary into <scratch-dir>/sim.test (or sim.race.test).
# Exit 2 on any build trouble (never a VIOLATION).
set -u
SCR="$1"; MODE="${2:-norace}"
export GOFLAGS=-mod=mod GOPROXY=off GOSUMDB=off GOTOOLCHAIN=local
GO=go1.26.8
VERIF="$(cd "$(dirname "$0")/.." && pwd)"
REPO="${VERIF_REPO:-/repo}"
mkdir -p "$SCR" || exit 2
if [ ! -x "$VERIF/bin/instrument" ] || [ "$VERIF/instrument/main.go" -nt "$VERIF/bin/instrument" ]; then
  (cd "$VERIF/instrument" && $GO build -o "$VERIF/bin/instrument" .) || { echo "build.sh: cannot build instrumenter" >&2; exit 2; }
fi
rm -rf "$SCR/src" "$SCR/overlay.json"
"$VERIF/bin/instrument" -repo "$REPO" -sim "$VERIF/sim" -out "$SCR" > "$SCR/instrument.log" 2>&1 || { cat "$SCR/instrument.log" >&2; exit 2; }
# scratch go.mod = repo's + replace lines for the two patched dependency copies
cp "$REPO/go.mod" "$SCR/sim.mod" && cp "$REPO/go.sum" "$SCR/sim.sum" || exit 2
cat >> "$SCR/sim.mod" <<EOM

replace github.com/fiorix/go-diameter => $VERIF/third_party/go-diameter

replace github.com/free5gc/util => $VERIF/third_party/util

replace github.com/jlaffaye/ftp => $VERIF/third_party/ftp
EOM
OUT="$SCR/sim.test"; RACE=""
if [ "$MODE" = race ]; then OUT="$SCR/sim.race.test"; RACE="-race"; fi
(cd "$REPO" && $GO test -c -vet=off $RACE -overlay "$SCR/overlay.json" -modfile "$SCR/sim.mod" -o "$OUT" ./internal/verifsim) > "$SCR/build.$MODE.log" 2>&1
rc=$?
if [ $rc -ne 0 ] || [ ! -x "$OUT" ]; then
  echo "build.sh: go test -c failed (rc=$rc)" >&2; tail -40 "$SCR/build.$MODE.log" >&2; exit 2
fi
exit 0
