#!/bin/bash
# regress_benign.sh [pattern] — applies every change under benign/ (changes written to keep all
# properties true) in turn, runs the suite and every quick check against it, undoes it.
cd "$(dirname "$0")/.."
for d in benign/${1:-*}/; do bin/try_benign.sh "$PWD/$d/patch.diff"; done
