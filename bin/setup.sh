#!/bin/bash
# Builds the framework's own tool (the instrumenter) from files on disk only.
set -e
cd "$(dirname "$0")/.."
export GOFLAGS=-mod=mod GOPROXY=off GOSUMDB=off GOTOOLCHAIN=local
(cd instrument && go1.26.8 build -o ../bin/instrument .)
mkdir -p evidence replays
echo "setup: ok"
