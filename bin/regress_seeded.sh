#!/bin/bash
# regress_seeded.sh [pattern] — applies every seeded change under seeded/ to /repo in turn, runs the
# quick check of its property and undoes it; prints one verdict line per change.
cd "$(dirname "$0")/.."
for d in seeded/${1:-*}/; do
  p=$(python3 -c "import json;print(json.load(open('$d/meta.json'))['property'])")
  bin/try_mutant.sh "$PWD/$d/patch.diff" "$p" 2>&1 | grep "^RESULT\|try_mutant" | sed "s|^RESULT|RESULT $(basename $d | cut -c1-12)|" | cut -c1-420
done
