#!/bin/bash
# try_mutant.sh <patch.diff> <PROP> [extra bin/check args]  — apply a seeded change to the
# repository (default /repo, or $VERIF_REPO), run the baseline suite and one check against it,
# undo it.  Prints a one-line verdict.  The check's evidence goes to a scratch directory.
P="$(readlink -f "$1")"; PROP="$2"; shift 2
export GOFLAGS=-mod=mod GOPROXY=off GOSUMDB=off
VERIF="$(cd "$(dirname "$0")/.." && pwd)"
REPO="${VERIF_REPO:-/repo}"
cd "$REPO" || exit 2
if [ -n "$(git status --porcelain)" ]; then echo "try_mutant: $REPO not clean" >&2; exit 2; fi
git apply "$P" || { echo "try_mutant: patch does not apply"; exit 2; }
trap 'git -C "$REPO" checkout -- . ' EXIT
TMPB=$(mktemp)
go build ./... >"$TMPB" 2>&1 || { echo "RESULT $PROP $(basename $(dirname $P)): DOES-NOT-BUILD"; tail -3 "$TMPB"; rm -f "$TMPB"; exit 0; }
rm -f "$TMPB"
if [ -n "${TRY_SKIP_SUITE:-}" ]; then T=skipped; else T=$(go test -vet=off -count=1 ./... 2>&1 | grep -c "^FAIL"); fi
OUT=$(VERIF_REPO="$REPO" VERIF_EVIDENCE_DIR=/tmp/mutant-evidence "$VERIF/bin/check" $PROP "$@" 2>&1)
RC=$?
V=$(echo "$OUT" | grep -A1 "^VIOLATION" | grep -v "^VIOLATION\|^--" | head -4 | tr '\n' ';')
echo "RESULT $PROP $(basename $(dirname $P)): suite_fail_pkgs=$T check_rc=$RC $(echo "$OUT" | grep '^check:' | tail -1 | sed 's/check: //') :: $V"
