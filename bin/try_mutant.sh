#!/bin/bash
# try_mutant.sh <patch.diff> <PROP> [extra bin/check args]  — apply a seeded change to /repo,
# run the baseline suite and one check against it, undo it.  Prints a one-line verdict.
P="$1"; PROP="$2"; shift 2
export GOFLAGS=-mod=mod GOPROXY=off GOSUMDB=off
cd /repo || exit 2
if [ -n "$(git status --porcelain)" ]; then echo "try_mutant: /repo not clean" >&2; exit 2; fi
git apply "$P" || { echo "try_mutant: patch does not apply"; exit 2; }
trap 'git -C /repo checkout -- . ' EXIT
go build ./... >/tmp/tm.build 2>&1 || { echo "RESULT $PROP $(basename $(dirname $P)): DOES-NOT-BUILD"; tail -3 /tmp/tm.build; exit 0; }
T=$(go test -vet=off -count=1 ./... 2>&1 | grep -c "^FAIL")
OUT=$(VERIF_EVIDENCE_DIR=/tmp/mutant-evidence /verif/bin/check $PROP "$@" 2>&1)
RC=$?
V=$(echo "$OUT" | grep -A1 "^VIOLATION" | grep -v "^VIOLATION\|^--" | head -4 | tr '\n' ';')
echo "RESULT $PROP $(basename $(dirname $P)): suite_fail_pkgs=$T check_rc=$RC $(echo "$OUT" | grep '^check:' | tail -1 | sed 's/check: //') :: $V"
