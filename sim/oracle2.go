package verifsim

import (
	"fmt"
	"sort"
	"strings"
)

func init() {
	extraCheckers["C10"] = CheckC10
	extraCheckers["C18"] = CheckC18
	extraCheckers["C19"] = CheckC19
	extraCheckers["C09"] = CheckC09
}

// ---------------------------------------------------------------- C10

// CheckC10: references of live sessions are pairwise distinct; a reference keeps
// designating the record its create opened.
func CheckC10(h *History) []Violation {
	var v vio
	all := append(append([]*OpResult(nil), h.Ops...), h.Epilogue...)
	if !h.Scenario.Cfg.Concurrent {
		type liveS struct {
			name, supi string
			localSeq   int64
		}
		live := map[string]*liveS{} // ref -> session
		byName := map[string]*liveS{}
		refOf := map[string]string{}
		for _, o := range all {
			if !o.Done || o.Skipped != "" {
				continue
			}
			switch o.Op.Kind {
			case "create":
				if o.Op.OneTime {
					if o.Status != 201 {
						v.add("C10", "event-rejected", "", o.Op.ID, "one-time event create op %d answered %d", o.Op.ID, o.Status)
						return v.list
					}
					continue
				}
				if o.Status != 201 || o.Ref == "" {
					continue
				}
				if other, dup := live[o.Ref]; dup {
					v.add("C10", "duplicate-reference", refShape(other.supi, o.Op.Supi), o.Op.ID,
						"create op %d for %s (consumer %q) returned reference %q which the live session %s of %s already holds",
						o.Op.ID, o.Op.Supi, o.Op.Consumer, o.Ref, other.name, other.supi)
					if len(v.list) >= 4 {
						return v.list
					}
				}
				s := &liveS{name: o.Op.Sess, supi: o.Op.Supi}
				if n := len(o.Mem); n > 0 {
					s.localSeq = o.Mem[n-1].LocalSeq
				}
				live[o.Ref] = s
				byName[o.Op.Sess] = s
				refOf[o.Op.Sess] = o.Ref
			case "update", "release":
				s := byName[o.Op.Sess]
				if s == nil || o.Op.RefMode != "" {
					continue
				}
				if !is2xx(o.Status) {
					v.add("C10", "reference-lost", "op="+o.Op.Kind, o.Op.ID,
						"%s op %d addressed to the live reference %q of session %s was answered %d", o.Op.Kind, o.Op.ID, o.Ref, s.name, o.Status)
					if len(v.list) >= 4 {
						return v.list
					}
					continue
				}
				// the unique containers of this request must sit in a record with the local
				// sequence number of the record this session's create opened
				for _, c := range o.Reported {
					found := int64(-1)
					foundSess := ""
					for _, r := range o.Mem {
						for _, rc := range r.Containers {
							if rc.Seq == int64(c.Seq) {
								found = r.LocalSeq
								foundSess = r.Session
							}
						}
					}
					if found == s.localSeq && foundSess != o.Ref {
						found = -2 // a record with the right number but naming another session (a clone of a foreign record)
					}
					if found != s.localSeq {
						v.add("C10", "wrong-record", "op="+o.Op.Kind, o.Op.ID,
							"%s op %d addressed to reference %q (session %s, record #%d): its container seq %d was recorded in record #%d",
							o.Op.Kind, o.Op.ID, o.Ref, s.name, s.localSeq, c.Seq, found)
						if len(v.list) >= 4 {
							return v.list
						}
						break
					}
				}
				if o.Op.Kind == "release" {
					delete(live, refOf[o.Op.Sess])
					delete(byName, o.Op.Sess)
				}
			}
		}
		return v.list
	}
	// concurrent creates: nothing is released inside the concurrent phase, so all
	// acknowledged references must be pairwise distinct
	refs := map[string]*OpResult{}
	relSess := map[string]bool{}
	for _, o := range all {
		if o.Op.Kind == "release" {
			relSess[o.Op.Sess] = true
		}
	}
	for _, o := range all {
		if o.Op.Kind != "create" || o.Op.OneTime || !o.Done || o.Status != 201 || o.Ref == "" || relSess[o.Op.Sess] {
			continue // sessions released inside the concurrent phase may legitimately hand their number on
		}
		if other, dup := refs[o.Ref]; dup {
			v.add("C10", "duplicate-reference", refShape(other.Op.Supi, o.Op.Supi)+" concurrent", o.Op.ID,
				"concurrent creates op %d (%s, consumer %q) and op %d (%s, consumer %q) both returned reference %q",
				other.Op.ID, other.Op.Supi, other.Op.Consumer, o.Op.ID, o.Op.Supi, o.Op.Consumer, o.Ref)
			return v.list
		}
		refs[o.Ref] = o
	}
	for _, o := range h.Epilogue {
		if o.Skipped == "" && o.Done && o.Op.Kind == "update" && !is2xx(o.Status) {
			v.add("C10", "reference-lost", "op=update concurrent", o.Op.ID, "epilogue update on session %s (reference %q) answered %d", o.Op.Sess, o.Ref, o.Status)
			return v.list
		}
	}
	// every epilogue container sits in a record carrying its session's reference
	if len(h.FinalMem) > 0 {
		for _, o := range h.Epilogue {
			if !o.Done || !is2xx(o.Status) {
				continue
			}
			for _, c := range o.Reported {
				okc := false
				for _, r := range h.FinalMem[o.Op.Supi] {
					for _, rc := range r.Containers {
						if rc.Seq == int64(c.Seq) && r.Session == o.Ref {
							okc = true
						}
					}
				}
				if !okc {
					v.add("C10", "wrong-record", "op=update concurrent", o.Op.ID, "epilogue update on reference %q: container seq %d is not in a record of that session", o.Ref, c.Seq)
					return v.list
				}
			}
		}
	}
	return v.list
}

func refShape(a, b string) string {
	if a == b {
		return "same-subscriber"
	}
	return "across-subscribers"
}

// ---------------------------------------------------------------- C18

func CheckC18(h *History) []Violation {
	var v vio
	if h.Aborted {
		return nil
	}
	subs := map[string]bool{}
	n := 0
	for _, o := range h.Ops {
		if o.Op.Supi != "" {
			subs[o.Op.Supi] = true
		}
		if o.Op.Kind == "update" {
			n++
		}
	}
	connBound := 8*len(subs) + 8
	goBound := 16*len(subs) + 16
	type phase struct {
		name   string
		open   int
		byPeer map[string]int
		tasks  int
		when   string
	}
	for _, ph := range []phase{
		{"after-requests", h.BurstCensus.EitherOpen, h.BurstCensus.ByPeerOpen, h.BurstGoroutines - h.GoBase, "1 s after the last request returned"},
		{"after-idle", h.Census.EitherOpen, h.Census.ByPeerOpen, h.Goroutines - h.GoBase, fmt.Sprintf("after %d s of idle time", h.Scenario.Cfg.SettleNs/1_000_000_000)},
	} {
		if ph.open > connBound {
			v.add("C18", "connections-grow", "phase="+ph.name, -1,
				"%d updates of %d subscriber(s): %s %d Diameter connections are still open (fixed bound %d): %v",
				n, len(subs), ph.when, ph.open, connBound, ph.byPeer)
		}
		if ph.tasks > goBound {
			v.add("C18", "tasks-grow", "phase="+ph.name, -1,
				"%d updates of %d subscriber(s): %s %d background tasks exist beyond the booted system (fixed bound %d)",
				n, len(subs), ph.when, ph.tasks, goBound)
		}
	}
	return v.list
}

func peersOpen(h *History) string {
	var ks []string
	for k, n := range h.Census.ByPeerOpen {
		if n > 4 {
			ks = append(ks, k)
		}
	}
	sort.Strings(ks)
	return strings.Join(ks, "+")
}

// ---------------------------------------------------------------- C19

// CheckC19: un-faulted follow-ups are prompt and act on the answers to their own requests.
func CheckC19(h *History) []Violation {
	var v vio
	sc := h.Scenario
	// all account-server grants seen on the wire, by op
	type cca struct {
		op      int
		granted uint64
	}
	var ccas []cca
	ownGrant := map[int]uint64{}
	hasOwn := map[int]bool{}
	reqHop := map[uint32]int{} // hop-by-hop of CCRs -> op
	for _, m := range h.Msgs {
		if m.Cmd == 272 && m.Request && !m.ToClient {
			reqHop[m.HopByHop] = m.Op
		}
	}
	for _, m := range h.Msgs {
		if m.Cmd == 272 && !m.Request && m.ToClient && m.F.HasGSU {
			op, ok := reqHop[m.HopByHop]
			if !ok {
				continue
			}
			ccas = append(ccas, cca{op, m.F.Granted})
			if m.Delivered {
				ownGrant[op] = m.F.Granted
				hasOwn[op] = true
			}
		}
	}
	for _, o := range h.Ops {
		if o.Op.Role != "unfaulted" || o.Skipped != "" || o.Faulted {
			continue
		}
		if !o.Done {
			continue // reported by the liveness check
		}
		if d := o.EndNs - o.StartNs; d > 30_000_000_000 {
			v.add("C19", "followup-slow", "", o.Op.ID, "un-faulted update op %d took %.1f s of simulated time", o.Op.ID, float64(d)/1e9)
			return v.list
		}
		if o.Status != 200 {
			v.add("C19", "followup-failed", fmt.Sprintf("status=%d", o.Status), o.Op.ID, "un-faulted update op %d answered %d: %s", o.Op.ID, o.Status, o.RespBody)
			return v.list
		}
		u := o.Op.Units[0]
		cost, _ := intCost(sc.account(o.Op.Supi, u.RG))
		var ui *UnitInfo
		for i := range o.Units {
			if o.Units[i].RG == u.RG {
				ui = &o.Units[i]
			}
		}
		// a final-unit indication in the response must come from this op's own credit answer
		if ui != nil && ui.FUI {
			ownFUI, seen := false, false
			for _, m := range h.Msgs {
				if m.Task == o.Task && m.Op == o.Op.ID && m.Cmd == 272 && !m.Request && m.ToClient && m.Delivered {
					seen = true
					ownFUI = ownFUI || m.F.FUI
				}
			}
			if seen && !ownFUI {
				v.add("C19", "final-unit-cross-talk", "", o.Op.ID,
					"un-faulted update op %d is answered with a final-unit indication, but none of the credit-control answers to its own requests carries one (an earlier answer, to another request, did)", o.Op.ID)
				return v.list
			}
		}
		if ui == nil || !ui.HasGrant {
			v.add("C19", "followup-no-grant", "", o.Op.ID, "un-faulted update op %d (requested %d) got no grant although every peer answered its requests: %s", o.Op.ID, u.Req, o.RespBody)
			return v.list
		}
		// the grant must be consistent with the rating answer to this op's OWN request
		// (matched on the wire by hop-by-hop id), never with an answer to another request
		ownAllowed, haveOwn := ownRatingAnswer(h, o, u.RG)
		if haveOwn {
			want := int64(u.Req)
			if int64(ownAllowed) < want {
				want = int64(ownAllowed)
			}
			switch {
			case int64(ui.Granted) > int64(ownAllowed):
				v.add("C19", "grant-exceeds-own-answer", "", o.Op.ID,
					"un-faulted update op %d was granted %d units but the rating answer to its own request allows %d", o.Op.ID, ui.Granted, ownAllowed)
				return v.list
			case int64(ui.Granted) != want:
				// which other answer explains the value?
				for _, m := range h.Msgs {
					if m.Cmd == 111 && !m.Request && m.ToClient && m.F.HasAllowed && (m.Op != o.Op.ID || m.F.Allowed != ownAllowed) {
						other := int64(u.Req)
						if int64(m.F.Allowed) < other {
							other = int64(m.F.Allowed)
						}
						if other == int64(ui.Granted) {
							v.add("C19", "grant-cross-talk", "", o.Op.ID,
								"un-faulted update op %d requested %d units, its own rating answer allows %d, but it was granted %d — what the answer sent for op %d (allowed units %d) yields",
								o.Op.ID, u.Req, ownAllowed, ui.Granted, m.Op, m.F.Allowed)
							return v.list
						}
					}
				}
			}
		}
		pre, ok1 := stateOf(o.Pre, o.Op.Supi, u.RG)
		post, ok2 := stateOf(o.Post, o.Op.Supi, u.RG)
		if ok1 && ok2 && hasOwn[o.Op.ID] {
			used := onlineUsed(o)[u.RG]
			delta := post.Reserved - pre.Reserved + cost*used
			if delta != int64(ownGrant[o.Op.ID]) {
				cls := "unattributable"
				for _, c := range ccas {
					if c.op != o.Op.ID && int64(c.granted) == delta {
						cls = "cross-talk"
					}
				}
				v.add("C19", "reservation-"+cls, "", o.Op.ID,
					"un-faulted update op %d: reservation moved by %d (+ cost x used) but the account server granted %d to this op's own request (%s)",
					o.Op.ID, delta, ownGrant[o.Op.ID], cls)
				return v.list
			}
		}
	}
	return v.list
}

// ownRatingAnswer finds the SUA that answered this op's reserve-mode rating request (the
// one carrying the monetary quota) on the wire.
func ownRatingAnswer(h *History, o *OpResult, rg int32) (uint64, bool) {
	var hop uint32
	found := false
	for _, m := range h.Msgs {
		if m.Task == o.Task && m.Op == o.Op.ID && m.Cmd == 111 && m.Request && m.F.HasSR && m.F.ServiceID == int64(rg) && m.F.ReqSubType == 1 && m.F.MonetaryQ > 0 {
			hop, found = m.HopByHop, true
		}
	}
	if !found {
		return 0, false
	}
	for _, m := range h.Msgs {
		if m.Op == o.Op.ID && m.Cmd == 111 && !m.Request && m.ToClient && m.HopByHop == hop && m.Delivered && m.F.HasAllowed {
			return m.F.Allowed, true
		}
	}
	return 0, false
}

// CheckReleaseRace: requests racing with a release of the same session.  Whatever the
// interleaving, once the release has been answered the released session's record must not
// change any more (a request that is answered 200 must have taken effect before the
// release; one that takes effect afterwards names a stale reference and must be rejected).
func CheckReleaseRace(h *History, prop string) []Violation {
	var v vio
	if h.Aborted || h.FinalMem == nil {
		return nil
	}
	all := append(append([]*OpResult(nil), h.Ops...), h.Epilogue...)
	for _, r := range all {
		if r.Op.Kind != "release" || !r.Done || !is2xx(r.Status) || r.Op.RefMode != "" {
			continue
		}
		// the file image the release itself wrote
		var img []byte
		for i := r.PreWrites; i < len(h.Journal); i++ {
			w := h.Journal[i]
			if w.Task == r.Task && w.At >= r.StartNs && w.At <= r.EndNs {
				img = w.Data
			}
		}
		if img == nil {
			continue
		}
		inImg := map[int64]bool{}
		if f, errs := readCdrFile(img); f != nil && len(errs) == 0 {
			for _, p := range f.Payloads {
				if rec, err := decodeCHFRecord(p); err == nil && rec.SessionID == r.Ref {
					for _, c := range rec.Containers {
						inImg[c.Seq] = true
					}
				}
			}
		} else {
			continue
		}
		for _, rec := range h.FinalMem[r.Op.Supi] {
			if !rec.HasSession || rec.Session != r.Ref {
				continue
			}
			for _, c := range rec.Containers {
				if !inImg[c.Seq] {
					who := "?"
					for _, o := range all {
						for _, rc := range o.Reported {
							if int64(rc.Seq) == c.Seq {
								who = fmt.Sprintf("%s op %d (answered %d, ran %d..%d ns; the release ran %d..%d ns)", o.Op.Kind, o.Op.ID, o.Status, o.StartNs, o.EndNs, r.StartNs, r.EndNs)
							}
						}
					}
					v.add(prop, "released-record-changed", "", r.Op.ID,
						"session %s (%s) was released by op %d (204), but afterwards its closed record gained usage container seq %d reported by %s",
						r.Op.Sess, r.Ref, r.Op.ID, c.Seq, who)
					return v.list
				}
			}
		}
		// real-time order: a request issued after the release was answered must be rejected
		for _, o := range all {
			if (o.Op.Kind == "update" || o.Op.Kind == "release") && o != r && o.Op.Sess == r.Op.Sess && o.Op.RefMode == "" && o.Done && o.StartNs > r.EndNs && is2xx(o.Status) {
				v.add(prop, "stale-reference-accepted", "op="+o.Op.Kind, o.Op.ID,
					"%s op %d on session %s started after the release of that session had been answered and was still answered %d", o.Op.Kind, o.Op.ID, o.Op.Sess, o.Status)
				return v.list
			}
		}
	}
	return v.list
}

// ---------------------------------------------------------------- C09

// CheckC09: quiescent-state invariants after concurrent requests (race reports and
// process crashes are added by the driver).
func CheckC09(h *History) []Violation {
	var v vio
	if h.Aborted {
		return nil
	}
	sc := h.Scenario
	all := append(append(append([]*OpResult(nil), h.Ops...), h.Epilogue...), h.Callbacks...)
	// every request of the concurrent phase is answered without 5xx
	for _, o := range all {
		if o.Skipped != "" || !o.Done {
			continue
		}
		if is5xx(o.Status) {
			v.add("C09", "5xx", "op="+o.Op.Kind+" site="+panicSite(o.Panics), o.Op.ID, "op %d (%s) answered %d under concurrency; recovered panics: %v", o.Op.ID, o.Op.Kind, o.Status, o.Panics)
			return v.list
		}
	}
	// (3) accounting identity at quiescence
	used := map[string]int64{}
	credited := map[string]int64{}
	for _, a := range sc.Accounts {
		credited[acctKey(a.Supi, a.RG)] = a.Quota
	}
	for _, o := range all {
		if !o.Done || o.Skipped != "" {
			continue
		}
		switch o.Op.Kind {
		case "recharge":
			credited[acctKey(o.Op.Supi, o.Op.RG)] += o.Op.TopUp
		case "create", "update", "release":
			if is2xx(o.Status) {
				for rg, u := range onlineUsed(o) {
					used[acctKey(o.Op.Supi, rg)] += u
				}
			}
		}
	}
	for _, st := range h.Final {
		cost, ok := intCost(sc.account(st.Supi, st.RG))
		if !ok || !st.HasQuota {
			continue
		}
		k := acctKey(st.Supi, st.RG)
		want := credited[k] - cost*used[k]
		if got := st.Quota + st.Reserved; got != want {
			v.add("C09", "quiescent-identity", "", -1,
				"after all concurrent requests completed: %s rg %d balance %d + reserved %d = %d, expected credited %d - cost %d x used %d = %d (diff %+d)",
				st.Supi, st.RG, st.Quota, st.Reserved, got, credited[k], cost, used[k], want, got-want)
			break
		}
	}
	// (4) every reported container recorded exactly once (per subscriber)
	want := map[string]map[int32]int{}
	for _, o := range all {
		if !o.Done || o.Skipped != "" || !is2xx(o.Status) {
			continue
		}
		for _, c := range o.Reported {
			if want[o.Op.Supi] == nil {
				want[o.Op.Supi] = map[int32]int{}
			}
			want[o.Op.Supi][c.Seq]++
		}
	}
	var supis []string
	for s := range want {
		supis = append(supis, s)
	}
	sort.Strings(supis)
	for _, s := range supis {
		got := map[int64]int{}
		for _, r := range h.FinalMem[s] {
			for _, c := range r.Containers {
				got[c.Seq]++
			}
		}
		var seqs []int
		for q := range want[s] {
			seqs = append(seqs, int(q))
		}
		sort.Ints(seqs)
		for _, q := range seqs {
			if n := got[int64(q)]; n != 1 {
				kind := "lost"
				if n > 1 {
					kind = "duplicated"
				}
				v.add("C09", "container-"+kind, "", -1, "%s: usage container seq %d reported once in an accepted request is recorded %d times", s, q, n)
				return v.list
			}
		}
	}
	v.list = append(v.list, CheckReleaseRace(h, "C09")...)
	v.list = append(v.list, CheckPromptDuringNotification(h, "C09")...)
	// (5) acknowledged sessions stay usable
	for _, o := range h.Epilogue {
		if o.Skipped != "" {
			continue
		}
		if !o.Done {
			continue
		}
		if !is2xx(o.Status) {
			v.add("C09", "session-unusable", "op="+o.Op.Kind, o.Op.ID,
				"after the concurrent phase %s on acknowledged session %s (%s) was answered %d", o.Op.Kind, o.Op.Sess, o.Ref, o.Status)
			return v.list
		}
	}
	return v.list
}
