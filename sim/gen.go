package verifsim

import (
	"fmt"

	"github.com/free5gc/chf/internal/verifsim/rt"
	"github.com/free5gc/chf/internal/verifsim/simnet"
)

// Generators: one integer (the seed) decides the whole scenario.  Swarm style: each
// generator first draws which op kinds / knob ranges are enabled, then the history.

type gen struct {
	r      *rt.Rng
	sc     *Scenario
	nextOp int
}

func newGen(prop string, seed uint64) *gen {
	g := &gen{r: rt.NewRng(seed, rt.HashStr(prop)), sc: &Scenario{Prop: prop, Seed: seed}}
	g.sc.Cfg = RunCfg{
		MinLatNs:  100_000,
		MaxLatNs:  []int64{300_000, 2_000_000, 10_000_000, 50_000_000}[g.r.Intn(4)],
		PollMinNs: 20_000, PollMaxNs: 400_000,
		ThresholdRate: 0.8,
	}
	// swarm: configuration knobs that only add triggers / thresholds to answers must never
	// matter for any property; vary them per run
	if g.r.Chance(300) {
		g.sc.Cfg.VolumeLimit = int32(g.r.Range(1, 100000))
	}
	if g.r.Chance(300) {
		g.sc.Cfg.VolumeLimitPDU = int32(g.r.Range(1, 100000))
	}
	if g.r.Chance(300) {
		g.sc.Cfg.QuotaValidity = int32(g.r.Range(1, 86400))
	}
	if g.r.Chance(300) {
		g.sc.Cfg.ThresholdRate = []float32{0, 0.1, 0.5, 1}[g.r.Intn(4)]
	}
	if g.r.Chance(250) {
		g.sc.Cfg.DBDelayMaxNs = []int64{10_000, 1_000_000, 20_000_000}[g.r.Intn(3)]
	}
	return g
}

func (g *gen) id() int { g.nextOp++; return g.nextOp }

func supiN(n int) string { return fmt.Sprintf("imsi-2089300000000%02d", n) }

var zoneOffsets = []int{0, 3600, 8 * 3600, -5 * 3600, -8 * 3600, 5*3600 + 1800, 5*3600 + 2700, -(3*3600 + 1800),
	-(9*3600 + 1800), 14 * 3600, -12 * 3600, 9*3600 + 1800, 12*3600 + 2700, -3600, 2 * 3600, 10 * 3600, -10 * 3600}

var costs = []string{"1", "1", "2", "3", "7", "10", "100", "1000"}

func (g *gen) pickCost() string { return costs[g.r.Intn(len(costs))] }

func (g *gen) online(perm int) Container {
	return Container{QMI: "ONLINE_CHARGING", UsePermille: perm, SSU: int32(g.r.Intn(50))}
}

func (g *gen) offline() Container {
	return Container{QMI: "OFFLINE_CHARGING", UsePermille: -1, Vol: int32(g.r.Range(0, 5000)), SSU: int32(g.r.Intn(50))}
}

var partialTriggers = []Trig{
	{Type: "VOLUME_LIMIT", Category: "IMMEDIATE_REPORT"},
	{Type: "MAX_NUMBER_OF_CHANGES_IN_CHARGING_CONDITIONS", Category: "IMMEDIATE_REPORT"},
	{Type: "MANAGEMENT_INTERVENTION", Category: "IMMEDIATE_REPORT"},
	{Type: "QUOTA_THRESHOLD", Category: "IMMEDIATE_REPORT"},
}

// sessState tracks what the generator knows about a logical session.
type sessState struct {
	name    string
	supi    string
	rgs     []int32
	created bool
	live    bool
}

// accounts creates nSub subscribers with 1..maxRG rating groups each.
func (g *gen) accounts(nSub, maxRG int, quota func() int64) map[string][]int32 {
	out := map[string][]int32{}
	for s := 1; s <= nSub; s++ {
		n := 1 + g.r.Intn(maxRG)
		for rg := 1; rg <= n; rg++ {
			g.sc.Accounts = append(g.sc.Accounts, Account{Supi: supiN(s), RG: int32(rg), Quota: quota(), UnitCost: g.pickCost()})
			out[supiN(s)] = append(out[supiN(s)], int32(rg))
		}
	}
	return out
}

func (g *gen) costOf(supi string, rg int32) int64 {
	c, _ := intCost(g.sc.account(supi, rg))
	if c == 0 {
		c = 1
	}
	return c
}

// reqVol draws a requested volume whose price fits 32 bits comfortably.
func (g *gen) reqVol(cost int64) int32 {
	max := int64(4_000_000_000) / cost
	if max > 2_000_000 {
		max = 2_000_000
	}
	switch g.r.Intn(5) {
	case 0:
		return int32(g.r.Range(1, 10))
	case 1:
		return int32(g.r.Range(1, max))
	case 2:
		return 1000
	}
	return int32(g.r.Range(10, 50_000))
}

// ---------------------------------------------------------------- C01

// genC01Parallel: every subscriber's history runs as its own task, all at the same time.
// Histories of different subscribers share nothing but the servers, so each account must
// still satisfy the identity once everything has completed.
func genC01Parallel(g *gen) *Scenario {
	g.sc.Cfg.Concurrent = true
	g.sc.Cfg.MaxLatNs = []int64{300_000, 5_000_000}[g.r.Intn(2)]
	nSub := 2 + g.r.Intn(3)
	// 40 %: a subscriber has up to three sessions (PDU sessions), each driven by its own consumer
	// task; they share the subscriber's rating groups, i.e. its account and its reservation
	multi := g.r.Chance(400)
	if multi {
		nSub = 1 + g.r.Intn(2)
	}
	subs := g.accounts(nSub, 2, func() int64 { return g.r.Range(1000, 5_000_000) })
	tid := 0
	for s := 1; s <= nSub; s++ {
		nSess := 1
		if multi {
			nSess = 2 + g.r.Intn(2)
		}
		for k := 0; k < nSess; k++ {
			tid++
			st := &sessState{name: fmt.Sprintf("p%d_%d", s, k), supi: supiN(s), rgs: subs[supiN(s)]}
			ops := []Op{{ID: g.id(), Kind: "create", Supi: st.supi, Sess: st.name, Consumer: fmt.Sprintf("smf%d", k), ChargingID: int32(s*10 + k), NotifyURI: "http://smf.sim/notify/" + st.supi}}
			for i, n := 0, 2+g.r.Intn(8); i < n; i++ {
				ops = append(ops, g.usageOp("update", st, g.r.Chance(150), false, false, false))
			}
			if g.r.Chance(500) || multi && g.r.Chance(600) {
				ops = append(ops, g.usageOp("release", st, true, false, false, false))
			}
			g.sc.Tasks = append(g.sc.Tasks, Task{ID: tid, StartNs: g.r.Range(0, 20_000_000), Ops: ops})
		}
	}
	if multi {
		// the sessions' releases tend to come at the same moment (the UE detaches)
		g.sc.Cfg.YieldPermille = []int{0, 50, 200}[g.r.Intn(3)]
		g.sc.Cfg.YieldMaxNs = []int64{100_000, 5_000_000}[g.r.Intn(2)]
	}
	g.sc.Shape = fmt.Sprintf("parallel subs=%d multi=%v", nSub, multi)
	return g.sc
}

func GenC01(seed uint64) *Scenario {
	g := newGen("C01", seed)
	if g.r.Chance(120) {
		return genC01Parallel(g)
	}
	g.sc.Cfg.TZOffsetSec = zoneOffsets[g.r.Intn(len(zoneOffsets))]
	nSub := 1 + g.r.Intn(3)
	quotaClass := g.r.Intn(4)
	subs := g.accounts(nSub, 3, func() int64 {
		switch (quotaClass + g.r.Intn(2)) % 4 {
		case 0:
			return g.r.Range(0, 2000)
		case 1:
			return g.r.Range(1000, 200_000)
		case 2:
			return g.r.Range(100_000, 50_000_000)
		}
		return g.r.Range(1_000_000_000, 3_000_000_000)
	})
	// swarm switches
	allowOveruse := g.r.Chance(300)
	allowOffline := g.r.Chance(600)
	allowCreateUsage := g.r.Chance(150)
	allowFinalUpdate := g.r.Chance(700)
	allowRecharge := g.r.Chance(700)
	allowPartial := g.r.Chance(300)
	g.sc.Shape = fmt.Sprintf("subs=%d overuse=%v offline=%v createUsage=%v finalUpd=%v recharge=%v partial=%v",
		nSub, allowOveruse, allowOffline, allowCreateUsage, allowFinalUpdate, allowRecharge, allowPartial)

	var sess []*sessState
	for s := 1; s <= nSub; s++ {
		n := 1 + g.r.Intn(2)
		for k := 0; k < n; k++ {
			sess = append(sess, &sessState{name: fmt.Sprintf("s%d_%d", s, k), supi: supiN(s), rgs: subs[supiN(s)]})
		}
	}
	nOps := 3 + g.r.Intn(38)
	var ops []Op
	for len(ops) < nOps {
		s := sess[g.r.Intn(len(sess))]
		switch {
		case !s.created:
			op := Op{ID: g.id(), Kind: "create", Supi: s.supi, Sess: s.name, Consumer: "smf" + s.name, ChargingID: int32(g.r.Range(1, 1000)),
				NotifyURI: "http://smf.sim/notify/" + s.supi}
			if allowCreateUsage && g.r.Chance(500) {
				rg := s.rgs[g.r.Intn(len(s.rgs))]
				op.Units = []Unit{{RG: rg, Req: g.reqVol(g.costOf(s.supi, rg)),
					Containers: []Container{{QMI: "ONLINE_CHARGING", UsePermille: -1, Vol: int32(g.r.Range(1, 500))}}}}
			}
			ops = append(ops, op)
			s.created, s.live = true, true
		case s.live && g.r.Chance(80):
			ops = append(ops, g.usageOp("release", s, true, allowOveruse, allowOffline, false))
			s.live = false
		case s.live:
			final := allowFinalUpdate && g.r.Chance(200)
			op := g.usageOp("update", s, final, allowOveruse, allowOffline, allowPartial && !final && g.r.Chance(200))
			ops = append(ops, op)
		default:
			if allowRecharge && g.r.Chance(500) {
				rg := s.rgs[g.r.Intn(len(s.rgs))]
				ops = append(ops, Op{ID: g.id(), Kind: "recharge", Supi: s.supi, RG: rg, TopUp: g.r.Range(1, 500_000)})
			} else {
				// a released session may be re-created under a new name
				s.name = s.name + "r"
				s.created = false
			}
		}
		if allowRecharge && g.r.Chance(100) {
			rg := s.rgs[g.r.Intn(len(s.rgs))]
			ops = append(ops, Op{ID: g.id(), Kind: "recharge", Supi: s.supi, RG: rg, TopUp: g.r.Range(1, 500_000)})
		}
	}
	ops = g.withRejectedAttempts(ops, 40)
	g.sc.Tasks = []Task{{ID: 0, Ops: ops}}
	return g.sc
}

// withRejectedAttempts puts, before some updates, the same request with one wrongly typed
// member (valid JSON that the API cannot decode): the consumer is told 4xx, corrects the
// request and sends it again.  Whatever a rejected attempt is answered, it reports nothing.
func (g *gen) withRejectedAttempts(ops []Op, permille int) []Op {
	var out []Op
	for _, op := range ops {
		if op.Kind == "update" && g.r.Chance(permille) {
			bad := op
			bad.ID = g.id()
			bad.Corrupt = []string{"isn-string", "ts-number"}[g.r.Intn(2)]
			bad.Units = append([]Unit(nil), op.Units...)
			out = append(out, bad)
		}
		out = append(out, op)
	}
	return out
}

// usageOp builds an update/release that reports usage on a random subset of the session's groups.
func (g *gen) usageOp(kind string, s *sessState, final, overuse, offline, partial bool) Op {
	op := Op{ID: g.id(), Kind: kind, Supi: s.supi, Sess: s.name, Final: final}
	if partial {
		op.Triggers = []Trig{partialTriggers[g.r.Intn(len(partialTriggers))]}
	}
	n := 1 + g.r.Intn(len(s.rgs))
	perm := g.r.Intn(len(s.rgs))
	for k := 0; k < n; k++ {
		rg := s.rgs[(perm+k)%len(s.rgs)]
		u := Unit{RG: rg, Req: g.reqVol(g.costOf(s.supi, rg)), UPFID: "upf1"}
		if g.r.Chance(80) {
			u.NoReq = true // a pure usage report: no further quota is asked for
		}
		nc := 1 + g.r.Intn(2)
		for c := 0; c < nc; c++ {
			if offline && g.r.Chance(250) {
				u.Containers = append(u.Containers, g.offline())
				continue
			}
			p := []int{0, 250, 500, 1000, 1000, 1000}[g.r.Intn(6)]
			if g.r.Chance(200) {
				p = g.r.Intn(1001)
			}
			if overuse && g.r.Chance(150) {
				p = 1001 + g.r.Intn(1000)
			}
			u.Containers = append(u.Containers, g.online(p))
		}
		// at least one online container so that credit control runs
		hasOnline := false
		for _, c := range u.Containers {
			if c.QMI == "ONLINE_CHARGING" {
				hasOnline = true
			}
		}
		if !hasOnline && g.r.Chance(700) {
			u.Containers = append(u.Containers, g.online(1000))
		}
		op.Units = append(op.Units, u)
	}
	return op
}

// ---------------------------------------------------------------- C06

func GenC06(seed uint64) *Scenario {
	g := newGen("C06", seed)
	nSub := 1 + g.r.Intn(2)
	vol := int32([]int64{1, 10, 100, 1000, 10_000, 20_000, 100_000}[g.r.Intn(7)])
	varying := g.r.Chance(400)
	balClass := g.r.Intn(5)
	subs := map[string][]int32{}
	for s := 1; s <= nSub; s++ {
		n := 1 + g.r.Intn(2)
		for rg := 1; rg <= n; rg++ {
			cost := g.pickCost()
			c, _ := intCost(&Account{UnitCost: cost})
			quotaMoney := int64(vol) * c
			var q int64
			switch (balClass + g.r.Intn(2)) % 5 {
			case 0:
				q = 0
			case 1:
				q = g.r.Range(0, quotaMoney)
			case 2:
				q = g.r.Range(1, 6)*quotaMoney + g.r.Range(-1, 1)*c + g.r.Range(-1, 1)
				if q < 0 {
					q = 0
				}
			case 3:
				q = g.r.Range(quotaMoney, 4*quotaMoney)
			default:
				q = g.r.Range(20*quotaMoney, 100*quotaMoney+1000)
			}
			g.sc.Accounts = append(g.sc.Accounts, Account{Supi: supiN(s), RG: int32(rg), Quota: q, UnitCost: cost})
			subs[supiN(s)] = append(subs[supiN(s)], int32(rg))
		}
	}
	allowRecharge := g.r.Chance(400)
	allowFinal := g.r.Chance(500)
	// No peer outage is generated: C06 quantifies over histories and inputs, not over fault
	// sequences.  (Tried and withdrawn: with an account server that misses one exchange the
	// conservation-based bound of the oracle no longer holds, and the unchanged tree itself
	// over-grants after a failed debit-mode settlement - outside what C06 states.)
	outage := false
	g.sc.Shape = fmt.Sprintf("subs=%d vol=%d varying=%v bal=%d recharge=%v final=%v outage=%v", nSub, vol, varying, balClass, allowRecharge, allowFinal, outage)
	var ops []Op
	for s := 1; s <= nSub; s++ {
		ops = append(ops, Op{ID: g.id(), Kind: "create", Supi: supiN(s), Sess: fmt.Sprintf("s%d", s), Consumer: "smf", ChargingID: int32(s),
			NotifyURI: "http://smf.sim/notify/" + supiN(s)})
	}
	nOps := 2 + g.r.Intn(25)
	var extra []Op // releases owed for the short-lived second sessions
	for i := 0; i < nOps; i++ {
		s := 1 + g.r.Intn(nSub)
		supi := supiN(s)
		if allowRecharge && g.r.Chance(120) {
			rg := subs[supi][g.r.Intn(len(subs[supi]))]
			ops = append(ops, Op{ID: g.id(), Kind: "recharge", Supi: supi, RG: rg, TopUp: g.r.Range(1, int64(vol)*1000)})
			continue
		}
		// a second PDU session of the subscriber comes and goes (it may report nothing at all):
		// the first session's reservations and grants must be what they would have been without it
		if g.r.Chance(70) {
			name := fmt.Sprintf("x%d_%d", s, i)
			ops = append(ops, Op{ID: g.id(), Kind: "create", Supi: supi, Sess: name, Consumer: "smf2", ChargingID: int32(100 + i), NotifyURI: "http://smf.sim/notify/" + supi})
			if g.r.Chance(400) {
				rg := subs[supi][g.r.Intn(len(subs[supi]))]
				ops = append(ops, Op{ID: g.id(), Kind: "update", Supi: supi, Sess: name, Units: []Unit{{RG: rg, Req: vol, Containers: []Container{g.online(0)}}}})
			}
			extra = append(extra, Op{Kind: "release", Supi: supi, Sess: name})
			continue
		}
		if len(extra) > 0 && g.r.Chance(300) {
			rel := extra[0]
			extra = extra[1:]
			rel.ID = g.id()
			ops = append(ops, rel)
			continue
		}
		op := Op{ID: g.id(), Kind: "update", Supi: supi, Sess: fmt.Sprintf("s%d", s), Final: allowFinal && g.r.Chance(100)}
		for _, rg := range subs[supi] {
			if len(subs[supi]) > 1 && g.r.Chance(400) {
				continue
			}
			v := vol
			if varying {
				v = int32(g.r.Range(1, int64(vol)*2))
			}
			p := []int{0, 100, 500, 900, 1000, 1000, 1000}[g.r.Intn(7)]
			if g.r.Chance(200) {
				p = g.r.Intn(1001)
			}
			u := Unit{RG: rg, Req: v, Containers: []Container{g.online(p)}}
			if g.r.Chance(150) {
				u.Containers = append(u.Containers, g.online(g.r.Intn(1001)))
			}
			if g.r.Chance(100) {
				u.NoReq = true // usage report without a request for more quota
			}
			op.Units = append(op.Units, u)
		}
		if len(op.Units) == 0 {
			rg := subs[supi][0]
			op.Units = []Unit{{RG: rg, Req: vol, Containers: []Container{g.online(1000)}}}
		}
		if outage && g.r.Chance(120) {
			// the account server is unreachable / silent for one exchange of this update
			f := simnet.Fault{Peer: "abmf", Task: 0, Op: op.ID, Dir: []string{"dial", "req", "ans"}[g.r.Intn(3)], Cmd: 272, Nth: 0, Kind: simnet.KDrop}
			if f.Dir == "dial" {
				f.Kind, f.Cmd = simnet.KRefuse, 0
			}
			g.sc.Faults = append(g.sc.Faults, f)
		}
		ops = append(ops, op)
	}
	ops = g.withRejectedAttempts(ops, 60)
	g.sc.Tasks = []Task{{ID: 0, Ops: ops}}
	return g.sc
}

// ---------------------------------------------------------------- C02 / C03

// GenC02: multi-session histories with unique containers, partial records, releases, zones.
func GenC02(seed uint64) *Scenario {
	g := newGen("C02", seed)
	g.sc.Cfg.TZOffsetSec = zoneOffsets[g.r.Intn(len(zoneOffsets))]
	g.sc.Cfg.MemRecords = true
	nSub := 1 + g.r.Intn(3)
	subs := g.accounts(nSub, 2, func() int64 { return g.r.Range(1_000_000_000, 3_000_000_000) })
	long := g.r.Chance(80) // histories fat enough to cross the 64 KiB split
	maxSess := 1 + g.r.Intn(3)
	if long {
		// one subscriber with two or three sessions, so that several sessions (not only the
		// youngest) cross the split
		nSub = 1
		g.sc.Accounts = nil
		subs = g.accounts(nSub, 2, func() int64 { return g.r.Range(1_000_000_000, 3_000_000_000) })
		maxSess = 2 + g.r.Intn(2)
	}
	allowPartial := g.r.Chance(400)
	allowCreateUsage := g.r.Chance(300)
	g.sc.Shape = fmt.Sprintf("subs=%d long=%v maxSess=%d partial=%v createUsage=%v tz=%d", nSub, long, maxSess, allowPartial, allowCreateUsage, g.sc.Cfg.TZOffsetSec)
	var sess []*sessState
	for s := 1; s <= nSub; s++ {
		n := 1 + g.r.Intn(maxSess)
		if long {
			n = maxSess
		}
		for k := 0; k < n; k++ {
			sess = append(sess, &sessState{name: fmt.Sprintf("s%d_%d", s, k), supi: supiN(s), rgs: subs[supiN(s)]})
		}
	}
	nOps := 4 + g.r.Intn(30)
	if long {
		nOps = 30 + g.r.Intn(25)
	}
	var ops []Op
	// start at a drawn simulated instant so that dates/hours vary
	ops = append(ops, Op{ID: g.id(), Kind: "sleep", SleepNs: g.r.Range(0, 400*24*3600) * 1_000_000_000})
	for len(ops) < nOps {
		s := sess[g.r.Intn(len(sess))]
		switch {
		case !s.created:
			op := Op{ID: g.id(), Kind: "create", Supi: s.supi, Sess: s.name, Consumer: []string{"smf1", "smf-a", "SMF", "", "x"}[g.r.Intn(5)],
				ChargingID: int32(g.r.Range(0, 100000)), NotifyURI: "http://smf.sim/notify/" + s.supi}
			if g.r.Chance(500) {
				op.ConsumerV4 = []string{"10.0.0.8", "192.168.1.250"}[g.r.Intn(2)]
			}
			if g.r.Chance(400) {
				op.ConsumerV6 = []string{"2001:db8::8", "fe80::1"}[g.r.Intn(2)]
			}
			if g.r.Chance(300) {
				op.ConsumerFqdn = "smf.example.org"
			}
			if allowCreateUsage && g.r.Chance(400) {
				op.Units = []Unit{{RG: s.rgs[0], Req: 100, Containers: []Container{g.offline()}}}
			}
			ops = append(ops, op)
			s.created, s.live = true, true
			if g.r.Chance(300) {
				ops = append(ops, Op{ID: g.id(), Kind: "sleep", SleepNs: g.r.Range(1, 7200) * 1_000_000_000})
			}
		case s.live && g.r.Chance(60) && !(long && len(ops) < nOps-6):
			ops = append(ops, g.cdrUsageOp("release", s, 1+g.r.Intn(3), true, false))
			s.live = false
		case s.live:
			n := 1 + g.r.Intn(4)
			if long {
				n = 100 + g.r.Intn(250)
			}
			ops = append(ops, g.cdrUsageOp("update", s, n, false, allowPartial && g.r.Chance(150)))
		default:
			s.name += "r"
			s.created = false
		}
	}
	ops = g.withRejectedAttempts(ops, 40)
	g.sc.Tasks = []Task{{ID: 0, Ops: ops}}
	return g.sc
}

// cdrUsageOp reports n containers (mostly offline: no credit control, cheap) spread over the groups.
func (g *gen) cdrUsageOp(kind string, s *sessState, n int, final, partial bool) Op {
	op := Op{ID: g.id(), Kind: kind, Supi: s.supi, Sess: s.name, Final: final}
	if partial {
		op.Triggers = []Trig{partialTriggers[g.r.Intn(3)]}
	}
	nu := 1 + g.r.Intn(len(s.rgs))
	for k := 0; k < nu; k++ {
		u := Unit{RG: s.rgs[k], Req: 1000, UPFID: "upf"}
		cnt := n / nu
		if k == 0 {
			cnt += n % nu
		}
		for c := 0; c < cnt; c++ {
			if c == 0 && (partial || final || g.r.Chance(200)) {
				u.Containers = append(u.Containers, Container{QMI: "ONLINE_CHARGING", UsePermille: -1, Vol: int32(g.r.Range(0, 300)), SSU: int32(g.r.Intn(9))})
			} else {
				u.Containers = append(u.Containers, g.offline())
			}
		}
		op.Units = append(op.Units, u)
	}
	return op
}

// GenC03: size-biased histories.
func GenC03(seed uint64) *Scenario {
	g := newGen("C03", seed)
	g.sc.Cfg.MaxLatNs = 300_000
	subs := g.accounts(1+g.r.Intn(2), 2, func() int64 { return 3_000_000_000 })
	shape := g.r.Intn(8)
	g.sc.Shape = fmt.Sprintf("shape=%d", shape)
	var ops []Op
	s := &sessState{name: "s1", supi: supiN(1), rgs: subs[supiN(1)]}
	mk := func(kind string, n int, final bool) Op { return g.cdrUsageOp(kind, s, n, final, false) }
	create := Op{ID: g.id(), Kind: "create", Supi: s.supi, Sess: s.name, Consumer: "smf", ChargingID: 1}
	switch shape {
	case 0: // many small updates
		ops = append(ops, create)
		for i, n := 0, 20+g.r.Intn(60); i < n; i++ {
			ops = append(ops, mk("update", 1+g.r.Intn(60), false))
		}
	case 1: // one huge request
		ops = append(ops, create)
		ops = append(ops, mk("update", 500+g.r.Intn(3000), false))
		ops = append(ops, mk("update", 1+g.r.Intn(10), false))
	case 2: // fill to almost full, then a release that itself carries usage
		ops = append(ops, create)
		fill := 2300 + g.r.Intn(800)
		for fill > 0 {
			n := 100 + g.r.Intn(300)
			if n > fill {
				n = fill
			}
			ops = append(ops, mk("update", n, false))
			fill -= n
		}
		ops = append(ops, mk("release", 20+g.r.Intn(700), true))
	case 3: // create that itself carries a lot of usage
		create.Units = []Unit{{RG: s.rgs[0], Req: 10}}
		for i, n := 0, 1500+g.r.Intn(2000); i < n; i++ {
			create.Units[0].Containers = append(create.Units[0].Containers, g.offline())
		}
		ops = append(ops, create, mk("update", 1+g.r.Intn(500), false), mk("release", 1, true))
	case 6: // several tasks send fat updates for the same session at the same time
		g.sc.Cfg.Concurrent = true
		g.sc.Cfg.MaxLatNs = 2_000_000
		g.sc.Cfg.YieldPermille = []int{50, 300, 500}[g.r.Intn(3)]
		g.sc.Cfg.YieldMaxNs = []int64{100_000, 5_000_000}[g.r.Intn(2)]
		pre := []Op{create, mk("update", 1200+g.r.Intn(300), false)}
		g.sc.Tasks = []Task{{ID: 0, Ops: pre}}
		nT := 2 + g.r.Intn(3)
		for t := 1; t <= nT; t++ {
			var tops []Op
			for k := 0; k < 2+g.r.Intn(3); k++ {
				o := mk("update", 900+g.r.Intn(400), false)
				// an online container makes the update talk to the rating server while it holds (or should hold) the subscriber
				o.Units[0].Containers[0] = Container{QMI: "ONLINE_CHARGING", UsePermille: -1, Vol: 1}
				tops = append(tops, o)
			}
			g.sc.Tasks = append(g.sc.Tasks, Task{ID: t, StartNs: 100_000_000 + g.r.Range(0, 3_000_000), Ops: tops})
		}
		g.sc.Shape = fmt.Sprintf("shape=6 concurrent tasks=%d", nT)
		return g.sc
	case 7: // several subscribers, one consumer task each, all writing their CDR files at the same time
		g.sc.Cfg.Concurrent = true
		g.sc.Cfg.MaxLatNs = 2_000_000
		g.sc.Cfg.YieldPermille = []int{20, 100, 300}[g.r.Intn(3)]
		g.sc.Cfg.YieldMaxNs = []int64{10_000, 1_000_000}[g.r.Intn(2)]
		nS := 2 + g.r.Intn(3)
		g.sc.Accounts = nil
		for k := 1; k <= nS; k++ {
			g.sc.Accounts = append(g.sc.Accounts, Account{Supi: supiN(k), RG: 1, Quota: 3_000_000_000, UnitCost: "1"})
			st := &sessState{name: fmt.Sprintf("c%d", k), supi: supiN(k), rgs: []int32{1}}
			tops := []Op{{ID: g.id(), Kind: "create", Supi: st.supi, Sess: st.name, Consumer: "smf", ChargingID: int32(k)}}
			for i, n := 0, 3+g.r.Intn(8); i < n; i++ {
				tops = append(tops, g.cdrUsageOp("update", st, 1+g.r.Intn(40*k), false, false)) // file sizes differ between subscribers
			}
			if g.r.Chance(500) {
				tops = append(tops, g.cdrUsageOp("release", st, 1+g.r.Intn(20), true, false))
			}
			g.sc.Tasks = append(g.sc.Tasks, Task{ID: k, StartNs: g.r.Range(0, 2_000_000), Ops: tops})
		}
		g.sc.Shape = fmt.Sprintf("shape=7 concurrent subscribers=%d", nS)
		return g.sc
	case 5: // boundary walk: fill the record to just below the limit, then cross it in very small steps
		ops = append(ops, create)
		fill := 2700 + g.r.Intn(150)
		for fill > 0 {
			n := 300 + g.r.Intn(500)
			if n > fill {
				n = fill
			}
			ops = append(ops, mk("update", n, false))
			fill -= n
		}
		for i, n := 0, 60+g.r.Intn(120); i < n; i++ {
			ops = append(ops, mk("update", 1+g.r.Intn(3), false))
		}
	default: // two sessions, moderate, several splits
		ops = append(ops, create)
		s2 := &sessState{name: "s2", supi: s.supi, rgs: s.rgs}
		ops = append(ops, Op{ID: g.id(), Kind: "create", Supi: s2.supi, Sess: s2.name, Consumer: "smf", ChargingID: 2})
		for i, n := 0, 10+g.r.Intn(30); i < n; i++ {
			t := s
			if g.r.Chance(500) {
				t = s2
			}
			ops = append(ops, g.cdrUsageOp("update", t, 50+g.r.Intn(400), false, false))
		}
	}
	g.sc.Tasks = []Task{{ID: 0, Ops: ops}}
	return g.sc
}

// ---------------------------------------------------------------- C12

// genC12Race: a release (carrying online usage, so it holds the subscriber while it talks
// to the rating and account servers) races with updates / a second release of the same session.
func genC12Race(g *gen) *Scenario {
	g.sc.Cfg.Concurrent = true
	g.sc.Cfg.YieldPermille = []int{0, 30, 200}[g.r.Intn(3)]
	g.sc.Cfg.YieldMaxNs = []int64{1000, 200_000, 5_000_000}[g.r.Intn(3)]
	supi := supiN(1)
	g.sc.Accounts = []Account{{Supi: supi, RG: 1, Quota: g.r.Range(100_000, 5_000_000), UnitCost: g.pickCost()}}
	pro := []Op{{ID: g.id(), Kind: "create", Supi: supi, Sess: "s", Consumer: "smf", ChargingID: 9, NotifyURI: "http://smf.sim/notify/" + supi},
		{ID: g.id(), Kind: "update", Supi: supi, Sess: "s", Units: []Unit{{RG: 1, Req: 1000, Containers: []Container{g.online(0)}}}}}
	g.sc.Tasks = []Task{{ID: 0, Ops: pro}}
	t0 := int64(200_000_000)
	span := 4 * g.sc.Cfg.MaxLatNs * 8
	g.sc.Tasks = append(g.sc.Tasks, Task{ID: 1, StartNs: t0 + g.r.Range(0, span/4), Ops: []Op{{ID: g.id(), Kind: "release", Supi: supi, Sess: "s", Final: true,
		Units: []Unit{{RG: 1, Req: 0, Containers: []Container{g.online(500)}}}}}})
	n := 1 + g.r.Intn(3)
	for i := 0; i < n; i++ {
		op := Op{ID: g.id(), Kind: "update", Supi: supi, Sess: "s", Role: "may-reject",
			Units: []Unit{{RG: 1, Req: 100, Containers: []Container{g.offline()}}}}
		if g.r.Chance(300) {
			op.Units[0].Containers = []Container{g.online(0)}
		}
		if g.r.Chance(100) {
			op = Op{ID: g.id(), Kind: "release", Supi: supi, Sess: "s", Final: true, Role: "may-reject"}
		}
		g.sc.Tasks = append(g.sc.Tasks, Task{ID: 2 + i, StartNs: t0 + g.r.Range(0, span), Ops: []Op{op}})
	}
	g.sc.Shape = fmt.Sprintf("race-release racers=%d yield=%d", n, g.sc.Cfg.YieldPermille)
	return g.sc
}

func GenC12(seed uint64) *Scenario {
	g := newGen("C12", seed)
	if g.r.Chance(150) {
		return genC12Race(g)
	}
	g.sc.Cfg.Snapshots = true
	g.sc.Cfg.SinkMode = []string{"ok", "ok", "500", "error"}[g.r.Intn(4)]
	g.sc.Cfg.SinkDelayNs = []int64{0, 1_000_000, 200_000_000, 3_000_000_000}[g.r.Intn(4)]
	nSub := 1 + g.r.Intn(3)
	subs := g.accounts(nSub, 2, func() int64 { return g.r.Range(1_000, 5_000_000) })
	g.sc.Shape = fmt.Sprintf("subs=%d sink=%s/%d", nSub, g.sc.Cfg.SinkMode, g.sc.Cfg.SinkDelayNs)
	var sess []*sessState
	for s := 1; s <= nSub; s++ {
		for k := 0; k < 1+g.r.Intn(2); k++ {
			sess = append(sess, &sessState{name: fmt.Sprintf("s%d_%d", s, k), supi: supiN(s), rgs: subs[supiN(s)]})
		}
	}
	var ops []Op
	nOps := 4 + g.r.Intn(24)
	sameConsumer := g.r.Chance(500)
	for len(ops) < nOps {
		s := sess[g.r.Intn(len(sess))]
		// a create that lacks a mandatory member (rejected) and names another notification endpoint:
		// the subscriber's registered endpoint must stay what an accepted create made it
		if s.created && g.r.Chance(60) {
			ops = append(ops, Op{ID: g.id(), Kind: "create", Supi: s.supi, Sess: fmt.Sprintf("rej%d", len(ops)), Consumer: "smf-x", ChargingID: 77,
				NotifyURI: "http://smf.sim/notify/other-endpoint", Corrupt: "no-consumer"})
			continue
		}
		// invalid requests, in whatever state the system is
		if g.r.Chance(300) {
			kind := []string{"update", "release"}[g.r.Intn(2)]
			op := g.usageOp(kind, s, kind == "release" || g.r.Chance(300), false, true, false)
			switch g.r.Intn(4) {
			case 0: // unknown subscriber
				op.Supi = supiN(90 + g.r.Intn(5))
				op.RefMode = "unknown"
			case 1: // unknown reference of a known subscriber
				op.RefMode = "unknown"
			case 2: // another subscriber's reference
				o := sess[g.r.Intn(len(sess))]
				if o.supi == s.supi || !o.created {
					op.RefMode = "unknown"
				} else {
					op.RefMode = "foreign:" + o.name
				}
			default:
				op.RefMode = "literal:" + []string{"0", "x", s.supi, s.supi + "smf", "imsi-", "%20"}[g.r.Intn(6)]
			}
			if g.r.Chance(400) {
				op.NotifyURI = "http://smf.sim/notify/other-endpoint" // a rejected request must not re-register the endpoint either
			}
			ops = append(ops, op)
			continue
		}
		// a request for a live session whose body is valid JSON with one wrongly typed member:
		// whatever it is answered, a 4xx answer means the client still owns an open session
		if s.live && g.r.Chance(80) {
			kind := []string{"update", "release"}[g.r.Intn(2)]
			op := g.usageOp(kind, s, kind == "release", false, true, false)
			op.Corrupt = []string{"isn-string", "ts-number", "muu-object"}[g.r.Intn(3)]
			ops = append(ops, op)
			continue
		}
		switch {
		case !s.created:
			uri := "http://smf.sim/notify/" + s.supi
			if g.r.Chance(500) {
				uri = fmt.Sprintf("http://smf.sim/notify/%s/%s", s.supi, s.name) // a new consumer registers its own URI
			}
			consumer := "smf" + s.name
			if sameConsumer {
				consumer = "smf" // all sessions of the history come from one SMF
			}
			ops = append(ops, Op{ID: g.id(), Kind: "create", Supi: s.supi, Sess: s.name, Consumer: consumer, ChargingID: int32(g.r.Range(1, 99)),
				NotifyURI: uri})
			s.created, s.live = true, true
		case s.live && g.r.Chance(100):
			ops = append(ops, g.usageOp("release", s, true, false, true, false))
			s.live = false
		case s.live && g.r.Chance(200):
			rg := s.rgs[g.r.Intn(len(s.rgs))]
			top := int64(0)
			if g.r.Chance(500) {
				top = g.r.Range(1, 100000)
			}
			ops = append(ops, Op{ID: g.id(), Kind: "recharge", Supi: s.supi, RG: rg, TopUp: top})
		case s.live:
			ops = append(ops, g.usageOp("update", s, g.r.Chance(100), false, true, false))
		case s.created && !s.live && g.r.Chance(500):
			// stale reference: the session has been released
			kind := []string{"update", "release"}[g.r.Intn(2)]
			op := g.usageOp(kind, s, kind == "release", false, true, false)
			op.RefMode = "stale"
			if g.r.Chance(400) {
				op.NotifyURI = "http://smf.sim/notify/other-endpoint"
			}
			ops = append(ops, op)
		default:
			if g.r.Chance(300) {
				// recharge for a subscriber the CHF has never seen
				ops = append(ops, Op{ID: g.id(), Kind: "recharge", Supi: supiN(95), RG: 1})
			}
			s.name += "r"
			s.created = false
		}
	}
	g.sc.Tasks = []Task{{ID: 0, Ops: ops}}
	return g.sc
}

// Generate dispatches on the property id.
func Generate(prop string, seed uint64) *Scenario {
	switch prop {
	case "C01":
		return GenC01(seed)
	case "C02":
		return GenC02(seed)
	case "C03":
		return GenC03(seed)
	case "C06":
		return GenC06(seed)
	case "C12":
		return GenC12(seed)
	}
	if f, ok := extraGenerators[prop]; ok {
		return f(seed)
	}
	return nil
}

var extraGenerators = map[string]func(uint64) *Scenario{}

// Check dispatches on the property id.
func Check(prop string, h *History) []Violation {
	out := CheckLiveness(h, prop)
	switch prop {
	case "C01":
		out = append(out, CheckC01(h)...)
	case "C02":
		out = append(out, CheckC02(h)...)
	case "C03":
		out = append(out, CheckC03(h)...)
	case "C06":
		out = append(out, CheckC06(h)...)
	case "C11":
		out = CheckC11(h)
	case "C12":
		out = append(out, CheckC12(h)...)
	}
	if f, ok := extraCheckers[prop]; ok {
		out = append(out, f(h)...)
	}
	return out
}

var extraCheckers = map[string]func(*History) []Violation{}
