package verifsim

import (
	"bytes"
	"crypto/sha256"
	"encoding/hex"
	"encoding/json"
	"fmt"
	"net/http"
	"net/http/httptest"
	"net/url"
	"os"
	"runtime"
	"sort"
	"strings"
	"sync"
	"time"

	chf_context "github.com/free5gc/chf/internal/context"
	"github.com/free5gc/chf/internal/verifsim/rt"
	"github.com/free5gc/chf/internal/verifsim/simnet"
)

// ContainerRec is one usage container as reported by the harness.
type ContainerRec struct {
	RG     int32  `json:"rg"`
	Seq    int32  `json:"seq"`
	Vol    int32  `json:"vol"`
	Up     int32  `json:"up"`
	Down   int32  `json:"down"`
	SSU    int32  `json:"ssu"`
	Online bool   `json:"online"`
	QMI    string `json:"qmi"`
}

type UnitInfo struct {
	RG       int32 `json:"rg"`
	HasGrant bool  `json:"has_grant"`
	Granted  int32 `json:"granted"`
	FUI      bool  `json:"fui"`
}

type AcctState struct {
	Supi     string `json:"supi"`
	RG       int32  `json:"rg"`
	Quota    int64  `json:"quota"`
	HasQuota bool   `json:"has_quota"`
	Reserved int64  `json:"reserved"`
	UnitCost uint32 `json:"unit_cost"` // the unit cost the CHF holds for this rating group
}

// OpResult is what the harness observed for one op.
type OpResult struct {
	Op         Op              `json:"op"`
	Task       int             `json:"task"`
	StartNs    int64           `json:"start_ns"`
	EndNs      int64           `json:"end_ns"`
	Done       bool            `json:"done"` // returned within the budget
	Status     int             `json:"status"`
	Location   string          `json:"location,omitempty"`
	Ref        string          `json:"ref,omitempty"` // reference used (update/release) or obtained (create), in canonical (URI-decoded) form: what the records carry
	RefWire    string          `json:"ref_wire,omitempty"` // the same reference as the text that followed the last "/" of the Location header
	RespBody   string          `json:"resp_body,omitempty"`
	ISN        int32           `json:"isn"`
	RespISN    *int32          `json:"resp_isn,omitempty"`
	RespHasTS  bool            `json:"resp_has_ts"`
	Units      []UnitInfo      `json:"units,omitempty"`
	Reported   []ContainerRec  `json:"reported,omitempty"`
	ReqVol     map[int32]int32 `json:"req_vol,omitempty"`
	Pre        []AcctState     `json:"pre,omitempty"`
	Post       []AcctState     `json:"post,omitempty"`
	PreSnap    string          `json:"-"`
	PostSnap   string          `json:"-"`
	PreNotifs  int             `json:"pre_notifs"`
	PostNotifs int             `json:"post_notifs"`
	PreWrites  int             `json:"pre_writes"`
	PostWrites int             `json:"post_writes"`
	Faulted    bool            `json:"faulted"`
	Stacks     string          `json:"stacks,omitempty"`
	Skipped    string          `json:"skipped,omitempty"`
	Mem        []MemRec        `json:"-"`                // in-memory records of the op's subscriber after the op
	Panics     []string        `json:"panics,omitempty"` // panics recovered by the HTTP layer during the op
	Diam       *DiamResult     `json:"diam,omitempty"`
}

// History is everything recorded about one run.
type History struct {
	Scenario        *Scenario
	Ops             []*OpResult // in completion order of each task, tasks concatenated; sequential runs: global order
	Epilogue        []*OpResult
	Callbacks       []*OpResult // requests sent by the simulated SMF while a notification was outstanding
	Final           []AcctState
	Msgs            []*simnet.Msg
	Journal         []rt.Write
	Notifs          []Notification
	Census          simnet.Census
	Goroutines      int
	BurstCensus     simnet.Census // one simulated second after the last request returned
	BurstGoroutines int
	GoBase          int
	Fired           map[string]int
	DiamPanics      []string
	Aborted         bool // a liveness violation ended the run early
	Tasks           []*rt.Task
	SimEndNs        int64
	BootErr         string
	Credited        map[string]int64    // "supi|rg" -> initial + top-ups
	FinalMem        map[string][]MemRec // in-memory records per subscriber at quiescence
	FTP             []FTPEvent          // what the billing domain's FTP server saw (Cfg.Cgf)
}

type sessBinding struct {
	ready chan struct{}
	ref   string
	supi  string
	ok    bool
	once  sync.Once
}

type runner struct {
	sc        *Scenario
	w         *World
	h         *History
	mu        sync.Mutex
	sess      map[string]*sessBinding
	seqMu     sync.Mutex
	seq       int32 // unique container sequence numbers
	isn       int32
	lastGrant map[string]int32 // "sess|rg" -> last granted volume (per session; guarded by mu)
	credited  map[string]int64
	abort     bool
}

type logCapture struct {
	mu    sync.Mutex
	lines []string
}

func (l *logCapture) Write(p []byte) (int, error) {
	l.mu.Lock()
	l.lines = append(l.lines, string(p))
	l.mu.Unlock()
	return len(p), nil
}

func (r *runner) binding(name string) *sessBinding {
	r.mu.Lock()
	defer r.mu.Unlock()
	b, ok := r.sess[name]
	if !ok {
		b = &sessBinding{ready: make(chan struct{})}
		r.sess[name] = b
	}
	return b
}

func acctKey(supi string, rg int32) string { return fmt.Sprintf("%s|%d", supi, rg) }

// Run executes the scenario.  It must be called inside a synctest bubble.
func Run(sc *Scenario) *History {
	h := &History{Scenario: sc, Credited: map[string]int64{}}
	w, err := Boot(sc)
	if err != nil {
		h.BootErr = err.Error()
		return h
	}
	r := &runner{sc: sc, w: w, h: h, sess: map[string]*sessBinding{}, lastGrant: map[string]int32{}, credited: h.Credited}
	for _, a := range sc.Accounts {
		if !a.NoQuota {
			r.credited[acctKey(a.Supi, a.RG)] = a.Quota
		}
	}
	cfg := sc.Cfg
	if cfg.SinkCallback != nil {
		var cbMu sync.Mutex
		nCb := 0
		w.sinkMu.Lock()
		w.OnNotify = func(cancelled <-chan struct{}) {
			cbMu.Lock()
			nCb++
			id := nCb
			cbMu.Unlock()
			op := *cfg.SinkCallback
			op.ID = 900000 + id
			op.Role = "callback"
			fin := make(chan *OpResult, 1)
			go func() {
				t := rt.NewTask(900000+id, "smf-callback")
				t.Adopt()
				defer rt.Release()
				fin <- r.execOp(t, &op)
			}()
			select {
			case res := <-fin:
				cbMu.Lock()
				h.Callbacks = append(h.Callbacks, res)
				cbMu.Unlock()
			case <-cancelled:
				// the CHF gave up on the notification; the request is still in flight
				go func() {
					res := <-fin
					cbMu.Lock()
					h.Callbacks = append(h.Callbacks, res)
					cbMu.Unlock()
				}()
			}
		}
		w.sinkMu.Unlock()
	}
	rt.Begin(rt.Config{Seed: sc.Seed, YieldPermille: cfg.YieldPermille, YieldMaxNs: cfg.YieldMaxNs,
		PollMinNs: cfg.PollMinNs, PollMaxNs: cfg.PollMaxNs})
	h.GoBase = runtime.NumGoroutine()

	results := make([][]*OpResult, len(sc.Tasks))
	done := make(chan int, len(sc.Tasks))
	for i := range sc.Tasks {
		i := i
		tk := &sc.Tasks[i]
		go func() {
			t := rt.NewTask(tk.ID, fmt.Sprintf("task%d", tk.ID))
			t.Adopt()
			defer func() { rt.Release(); done <- i }()
			// distinct start instants: two tasks that are released "at the same time" are ordered
			// by the scenario (task id), never by the Go scheduler
			now0 := rt.Now()
			time.Sleep(time.Duration(rt.AlignAt(rt.SlotOf(tk.ID), now0+tk.StartNs+1) - now0))
			for j := range tk.Ops {
				if rt.Stopped() {
					return
				}
				res := r.execOp(t, &tk.Ops[j])
				results[i] = append(results[i], res)
			}
		}()
	}
	for range sc.Tasks {
		<-done
	}
	for i := range results {
		h.Ops = append(h.Ops, results[i]...)
	}
	if !cfg.Concurrent {
		sort.SliceStable(h.Ops, func(a, b int) bool { return h.Ops[a].StartNs < h.Ops[b].StartNs })
	}

	if !rt.Stopped() && cfg.SinkCallback != nil {
		// the notification (and with it the SMF's call-back request) may follow the recharge's
		// answer: let both complete before the system is looked at
		time.Sleep(25 * time.Second)
	}
	if !rt.Stopped() {
		if cfg.SettleNs > 0 {
			time.Sleep(time.Second)
			h.BurstCensus = w.Net.Census()
			h.BurstGoroutines = runtime.NumGoroutine()
			time.Sleep(time.Duration(cfg.SettleNs))
		}
		time.Sleep(time.Microsecond) // quiescence barrier: everything still unwinding has parked or exited
		h.Census = w.Net.Census()
		h.Goroutines = runtime.NumGoroutine()
		if len(sc.Epilogue) > 0 {
			t := rt.NewTask(1_000_000, "epilogue")
			t.Adopt()
			for j := range sc.Epilogue {
				if rt.Stopped() {
					break
				}
				h.Epilogue = append(h.Epilogue, r.execOp(t, &sc.Epilogue[j]))
			}
			rt.Release()
		}
	}
	h.Aborted = rt.Stopped()
	if !h.Aborted {
		h.Final = r.acctStates()
		h.FinalMem = map[string][]MemRec{}
		var supis []string
		chf_context.GetSelf().UePool.Range(func(k, v interface{}) bool { supis = append(supis, k.(string)); return true })
		sort.Strings(supis)
		for _, s := range supis {
			h.FinalMem[s] = memRecords(s)
		}
	}
	if sc.Prop == "C12" && !sc.Cfg.Concurrent {
		// a notification may be sent after the recharge was answered: give stragglers (and the
		// SBI client's 10 s time-out) their time before the endpoint's log is read
		time.Sleep(15 * time.Second)
	}
	h.SimEndNs = rt.Now()
	h.Msgs = w.Net.Msgs()
	h.Journal = rt.JournalOf(".cdr")
	h.Notifs = w.NotifsCopy()
	h.Fired = w.Net.Fired()
	if w.FTP != nil {
		h.FTP = w.FTP.Events()
	}
	h.Tasks = rt.End()
	w.Close()
	time.Sleep(time.Millisecond) // let closed connections unwind
	h.DiamPanics = w.DiamPanics()
	return h
}

// DiamPanics returns the panics that go-diameter's connection loop recovered (it logs
// them through the standard logger and closes the connection).
func (w *World) DiamPanics() []string {
	var out []string
	w.lc.mu.Lock()
	for _, l := range w.lc.lines {
		if strings.Contains(l, "panic serving") {
			out = append(out, firstLines(l, 14))
		}
	}
	w.lc.mu.Unlock()
	return out
}

func firstLines(s string, n int) string {
	parts := strings.SplitN(s, "\n", n+1)
	if len(parts) > n {
		parts = parts[:n]
	}
	return strings.Join(parts, "\n")
}

func (r *runner) acctStates() []AcctState {
	var out []AcctState
	for _, a := range r.sc.Accounts {
		q, ok := Quota(a.Supi, a.RG)
		out = append(out, AcctState{Supi: a.Supi, RG: a.RG, Quota: q, HasQuota: ok, Reserved: Reserved(a.Supi, a.RG), UnitCost: UnitCostOf(a.Supi, a.RG)})
	}
	return out
}

// fullSnapshot renders everything "no effect" is stated over: stored documents, every
// subscriber's reservations, records and open-record map, and the CDR files.
func fullSnapshot() string {
	var b strings.Builder
	b.WriteString(DBDump())
	self := chf_context.GetSelf()
	var supis []string
	self.UePool.Range(func(k, v interface{}) bool { supis = append(supis, k.(string)); return true })
	sort.Strings(supis)
	for _, s := range supis {
		ue, _ := self.ChfUeFindBySupi(s)
		if ue == nil {
			continue
		}
		fmt.Fprintf(&b, "ue %s\n notify=%s\n", s, ue.NotifyUri)
		var rgs []int
		for rg := range ue.ReservedQuota {
			rgs = append(rgs, int(rg))
		}
		sort.Ints(rgs)
		for _, rg := range rgs {
			if v := ue.ReservedQuota[int32(rg)]; v != 0 {
				fmt.Fprintf(&b, " reserved[%d]=%d\n", rg, v)
			}
		}
		rj, _ := json.Marshal(ue.Records)
		sum := sha256.Sum256(rj)
		fmt.Fprintf(&b, " records n=%d sha=%s\n", len(ue.Records), hex.EncodeToString(sum[:8]))
		var keys []string
		for k := range ue.Cdr {
			keys = append(keys, k)
		}
		sort.Strings(keys)
		for _, k := range keys {
			cj, _ := json.Marshal(ue.Cdr[k])
			cs := sha256.Sum256(cj)
			fmt.Fprintf(&b, " cdr[%s] sha=%s\n", k, hex.EncodeToString(cs[:8]))
		}
	}
	for _, f := range rt.Files() {
		data, _ := rt.ReadFile(f)
		sum := sha256.Sum256(data)
		fmt.Fprintf(&b, "file %s len=%d sha=%s\n", f, len(data), hex.EncodeToString(sum[:8]))
	}
	return b.String()
}

func (r *runner) nextSeq() int32 {
	r.seqMu.Lock()
	defer r.seqMu.Unlock()
	r.seq++
	return r.seq
}

func (r *runner) nextISN() int32 {
	r.seqMu.Lock()
	defer r.seqMu.Unlock()
	r.isn++
	return r.isn
}

// resolveRef returns the session reference an update/release should address.
// canonRef is the reference a URI path segment denotes (an implementation may or may not
// percent-encode the reference it puts into the Location header).
func canonRef(wire string) string {
	if u, err := url.PathUnescape(wire); err == nil {
		return u
	}
	return wire
}

func (r *runner) resolveRef(op *Op) (string, bool) {
	switch {
	case op.RefMode == "" || op.RefMode == "stale":
		b := r.binding(op.Sess)
		select {
		case <-b.ready:
		case <-time.After(200 * time.Second):
			return "", false
		}
		return b.ref, b.ok
	case op.RefMode == "unknown":
		return "imsi-000000000000000nosuch" + fmt.Sprint(op.ID), true
	case strings.HasPrefix(op.RefMode, "foreign:"):
		b := r.binding(strings.TrimPrefix(op.RefMode, "foreign:"))
		select {
		case <-b.ready:
		case <-time.After(200 * time.Second):
			return "", false
		}
		return b.ref, b.ok
	case strings.HasPrefix(op.RefMode, "literal:"):
		return strings.TrimPrefix(op.RefMode, "literal:"), true
	}
	return "", false
}

func (r *runner) buildBody(op *Op, res *OpResult) []byte {
	if op.Corrupt != "" {
		// an attempt the API cannot decode reports nothing: the consumer's own bookkeeping of
		// what it has left of its grants is the same afterwards
		r.mu.Lock()
		saved := map[string]int32{}
		for k, v := range r.lastGrant {
			saved[k] = v
		}
		r.mu.Unlock()
		defer func() {
			r.mu.Lock()
			r.lastGrant = saved
			r.mu.Unlock()
		}()
	}
	m := map[string]interface{}{}
	if op.Supi != "" {
		m["subscriberIdentifier"] = op.Supi
	}
	isn := op.ISN
	if isn == 0 {
		isn = int32(op.ID) // a function of the scenario, not of which task got here first
	}
	res.ISN = isn
	m["invocationSequenceNumber"] = isn
	m["invocationTimeStamp"] = time.Now().UTC().Format(time.RFC3339)
	consumer := map[string]interface{}{"nodeFunctionality": "SMF"}
	if op.Consumer != "" {
		consumer["nFName"] = op.Consumer
	}
	m["nfConsumerIdentification"] = consumer
	if op.ConsumerV4 != "" {
		consumer["nFIPv4Address"] = op.ConsumerV4
	}
	if op.ConsumerV6 != "" {
		consumer["nFIPv6Address"] = op.ConsumerV6
	}
	if op.ConsumerFqdn != "" {
		consumer["nFFqdn"] = op.ConsumerFqdn
	}
	if op.Kind != "create" && op.NotifyURI != "" {
		m["notifyUri"] = op.NotifyURI
	}
	if op.Kind == "create" {
		uri := op.NotifyURI
		if uri == "" {
			uri = "http://smf.sim/notify/" + op.Sess
		}
		m["notifyUri"] = uri
		m["chargingId"] = op.ChargingID
		if op.OneTime {
			m["oneTimeEvent"] = true
			m["oneTimeEventType"] = "IEC"
		}
		if !op.NoPDU {
			m["pDUSessionChargingInformation"] = map[string]interface{}{
				"chargingId": op.ChargingID,
				"pduSessionInformation": map[string]interface{}{
					"pduSessionID": 1,
					"dnnId":        "internet",
					"networkSlicingInfo": map[string]interface{}{
						"sNSSAI": map[string]interface{}{"sst": 1, "sd": "010203"},
					},
				},
			}
		}
	}
	var trigs []map[string]interface{}
	for _, t := range op.Triggers {
		trigs = append(trigs, map[string]interface{}{"triggerType": t.Type, "triggerCategory": t.Category})
	}
	if op.Final {
		trigs = append(trigs, map[string]interface{}{"triggerType": "FINAL", "triggerCategory": "IMMEDIATE_REPORT"})
	}
	if len(trigs) > 0 {
		m["triggers"] = trigs
	}
	nSeq := 0
	if len(op.Units) > 0 {
		var muu []map[string]interface{}
		res.ReqVol = map[int32]int32{}
		for _, u := range op.Units {
			e := map[string]interface{}{"ratingGroup": u.RG}
			if u.UPFID != "" {
				e["uPFID"] = u.UPFID
			}
			if !u.NoReq {
				e["requestedUnit"] = map[string]interface{}{"totalVolume": u.Req}
				res.ReqVol[u.RG] += u.Req
			}
			var cs []map[string]interface{}
			for _, c := range u.Containers {
				vol := c.Vol
				if c.UsePermille >= 0 {
					r.mu.Lock()
					g := r.lastGrant[fmt.Sprintf("%s|%d", op.Sess, u.RG)]
					r.mu.Unlock()
					vol = int32(int64(g) * int64(c.UsePermille) / 1000)
					// a grant is consumed once: the next container of the same request draws on what is left
					r.mu.Lock()
					r.lastGrant[fmt.Sprintf("%s|%d", op.Sess, u.RG)] = g - vol
					r.mu.Unlock()
				}
				rec := ContainerRec{RG: u.RG, Vol: vol, Up: vol / 2, Down: vol - vol/2, SSU: c.SSU,
					Online: c.QMI == "ONLINE_CHARGING", QMI: c.QMI}
				ce := map[string]interface{}{
					"totalVolume": vol, "uplinkVolume": rec.Up, "downlinkVolume": rec.Down,
					"serviceSpecificUnits": c.SSU,
				}
				if c.QMI != "" {
					ce["quotaManagementIndicator"] = c.QMI
				}
				if !c.NoSeq {
					nSeq++
					rec.Seq = int32(op.ID)*10000 + int32(nSeq) // unique per scenario, independent of task order
					ce["localSequenceNumber"] = rec.Seq
				}
				cs = append(cs, ce)
				res.Reported = append(res.Reported, rec)
			}
			if len(cs) > 0 {
				e["usedUnitContainer"] = cs
			}
			muu = append(muu, e)
		}
		m["multipleUnitUsage"] = muu
	}
	switch op.Corrupt {
	case "isn-string":
		m["invocationSequenceNumber"] = fmt.Sprint(isn)
	case "ts-number":
		m["invocationTimeStamp"] = 1234567890
	case "muu-object":
		m["multipleUnitUsage"] = map[string]interface{}{"ratingGroup": 1}
	case "no-consumer":
		delete(m, "nfConsumerIdentification") // mandatory member missing
	}
	b, _ := json.Marshal(m)
	return b
}

const basePath = "/nchf-convergedcharging/v3"

func (r *runner) execOp(t *rt.Task, op *Op) *OpResult {
	res := &OpResult{Op: *op, Task: t.ID}
	simnet.SetCurOp(t, op.ID)
	seqMode := !r.sc.Cfg.Concurrent

	switch op.Kind {
	case "sleep":
		res.StartNs = rt.Now()
		time.Sleep(time.Duration(op.SleepNs))
		res.EndNs, res.Done = rt.Now(), true
		return res
	case "ftprestart":
		// the billing domain's FTP server restarts: every control connection is reset
		res.StartNs = rt.Now()
		if r.w.FTP != nil {
			r.w.FTP.Restart()
		}
		res.EndNs, res.Done = rt.Now(), true
		return res
	case "ctrset":
		// the CHF has been running for a long time: its record counter is at this value
		res.StartNs = rt.Now()
		chf_context.GetSelf().LocalRecordSequenceNumber = uint64(op.TopUp)
		res.EndNs, res.Done = rt.Now(), true
		return res
	case "dbcost":
		// the operator changes the tariff of (subscriber, rating group) in the database
		res.StartNs = rt.Now()
		SetUnitCost(op.Supi, op.RG, op.Consumer)
		res.EndNs, res.Done = rt.Now(), true
		return res
	case "dbset":
		res.StartNs = rt.Now()
		SetQuota(op.Supi, op.RG, op.TopUp)
		r.mu.Lock()
		r.credited[acctKey(op.Supi, op.RG)] = op.TopUp
		r.mu.Unlock()
		res.EndNs, res.Done = rt.Now(), true
		return res
	}

	var method, path string
	var body []byte
	switch op.Kind {
	case "create":
		method, path = "POST", basePath+"/chargingdata"
		body = r.buildBody(op, res)
	case "update", "release":
		ref, ok := r.resolveRef(op)
		if !ok {
			res.Skipped = "session reference not available"
			res.StartNs, res.EndNs = rt.Now(), rt.Now()
			return res
		}
		res.Ref, res.RefWire = canonRef(ref), ref
		method, path = "POST", basePath+"/chargingdata/"+ref+"/"+op.Kind
		body = r.buildBody(op, res)
	case "recharge":
		if op.TopUp != 0 {
			if q, ok := Quota(op.Supi, op.RG); ok {
				SetQuota(op.Supi, op.RG, q+op.TopUp)
				r.mu.Lock()
				r.credited[acctKey(op.Supi, op.RG)] += op.TopUp
				r.mu.Unlock()
			}
		}
		method, path = "PUT", fmt.Sprintf("%s/recharging/%s_%d", basePath, op.Supi, op.RG)
	case "raw":
		method, path, body = op.Method, op.Path, []byte(op.Body)
		if strings.Contains(path, "{ref:") {
			// {ref:<sess>} is replaced by the bound reference of that session
			i := strings.Index(path, "{ref:")
			j := strings.Index(path[i:], "}")
			name := path[i+5 : i+j]
			b := r.binding(name)
			select {
			case <-b.ready:
			case <-time.After(200 * time.Second):
			}
			path = path[:i] + b.ref + path[i+j+1:]
		}
	default:
		res.Skipped = "unknown op kind " + op.Kind
		return res
	}

	if seqMode {
		res.Pre = r.acctStates()
		if r.sc.Cfg.Snapshots {
			res.PreSnap = fullSnapshot()
		}
	}
	res.PreNotifs = r.w.NotifCount()
	res.PreWrites = rt.JournalLenOf(".cdr")
	res.StartNs = rt.Now()
	t.Log(fmt.Sprintf("start op%d %s", op.ID, op.Kind))

	rec := httptest.NewRecorder()
	// the reference may contain anything (it is derived from request members): put the path
	// into the URL structure, as a client that escapes it properly would
	req := httptest.NewRequest(method, "http://127.0.0.113:8000/", bytes.NewReader(body))
	// The request target is what an HTTP client makes of the text it was given (for updates and
	// releases: the tail of the Location header, escaped or not) and what the server parses back
	// from the request line; text no client could put on the wire falls back to a literal path.
	req.URL = &url.URL{Scheme: "http", Host: "127.0.0.113:8000", Path: path}
	if cu, err := url.Parse("http://127.0.0.113:8000" + path); err == nil && cu.Host == "127.0.0.113:8000" {
		if su, err := url.ParseRequestURI(cu.RequestURI()); err == nil {
			su.Scheme, su.Host = "http", "127.0.0.113:8000"
			req.URL = su
		}
	}
	req.RequestURI = req.URL.RequestURI()
	if body != nil {
		req.Header.Set("Content-Type", "application/json")
	}
	finished := make(chan struct{})
	var childG uint64
	go func() {
		t.Adopt()
		childG = rt.Goid()
		defer func() {
			rt.Release()
			close(finished)
		}()
		r.w.Router.ServeHTTP(rec, req)
	}()
	budget := r.sc.Cfg.OpBudgetNs
	if budget <= 0 {
		budget = int64(120 * time.Second)
	}
	select {
	case <-finished:
		res.Done = true
	case <-time.After(time.Duration(budget)):
		res.Done = false
		res.Stacks = relevantStacks()
		rt.Stop()
	}
	_ = childG
	res.EndNs = rt.Now()
	if !res.Done {
		t.Log(fmt.Sprintf("op%d TIMEOUT", op.ID))
		if op.Kind == "create" {
			r.binding(op.Sess).once.Do(func() { close(r.binding(op.Sess).ready) })
		}
		return res
	}
	res.Status = rec.Code
	res.Location = rec.Header().Get("Location")
	res.RespBody = rec.Body.String()
	t.Log(fmt.Sprintf("end op%d status=%d", op.ID, res.Status))
	r.w.Net.OpDone(t.ID, op.ID)
	res.Faulted = r.w.Net.FaultFiredOn(t.ID, op.ID)

	// response body
	var parsed struct {
		ISN *int32  `json:"invocationSequenceNumber"`
		TS  *string `json:"invocationTimeStamp"`
		MUI []struct {
			RG      int32 `json:"ratingGroup"`
			Granted *struct {
				TotalVolume int32 `json:"totalVolume"`
			} `json:"grantedUnit"`
			FUI *struct {
				Action string `json:"finalUnitAction"`
			} `json:"finalUnitIndication"`
		} `json:"multipleUnitInformation"`
	}
	if json.Unmarshal(rec.Body.Bytes(), &parsed) == nil {
		res.RespISN = parsed.ISN
		res.RespHasTS = parsed.TS != nil && *parsed.TS != ""
		for _, u := range parsed.MUI {
			ui := UnitInfo{RG: u.RG}
			if u.Granted != nil {
				ui.HasGrant, ui.Granted = true, u.Granted.TotalVolume
			}
			if u.FUI != nil && u.FUI.Action != "" {
				ui.FUI = true
			}
			res.Units = append(res.Units, ui)
		}
	}
	if op.Kind == "update" && res.Status == 200 {
		r.mu.Lock()
		for _, u := range res.Units {
			if u.HasGrant {
				r.lastGrant[fmt.Sprintf("%s|%d", op.Sess, u.RG)] = u.Granted
			}
		}
		r.mu.Unlock()
	}
	if op.Kind == "create" {
		b := r.binding(op.Sess)
		b.once.Do(func() {
			if res.Status == 201 && res.Location != "" && !op.OneTime {
				i := strings.LastIndex(res.Location, "/")
				b.ref = res.Location[i+1:]
				b.supi = op.Supi
				b.ok = true
				res.Ref, res.RefWire = canonRef(b.ref), b.ref
			}
			close(b.ready)
		})
	}
	if seqMode {
		res.Post = r.acctStates()
		if r.sc.Cfg.Snapshots {
			res.PostSnap = fullSnapshot()
		}
		if r.sc.Cfg.MemRecords && op.Supi != "" {
			res.Mem = memRecords(op.Supi)
		}
	}
	res.Panics = r.w.TakePanics()
	res.PostNotifs = r.w.NotifCount()
	res.PostWrites = rt.JournalLenOf(".cdr")
	return res
}

// relevantStacks returns the stacks of goroutines that are inside CHF code (used when a
// request does not return).
func relevantStacks() string {
	buf := make([]byte, 1<<20)
	n := runtime.Stack(buf, true)
	var keep []string
	for _, g := range strings.Split(string(buf[:n]), "\n\n") {
		if strings.Contains(g, "github.com/free5gc/chf/internal/sbi/processor.") ||
			strings.Contains(g, "github.com/free5gc/chf/internal/sbi.(") ||
			strings.Contains(g, "github.com/free5gc/chf/internal/abmf.") ||
			strings.Contains(g, "github.com/free5gc/chf/internal/rating.") ||
			strings.Contains(g, "github.com/free5gc/chf/internal/context.") ||
			strings.Contains(g, "github.com/free5gc/chf/pkg/abmf.handleCCR") ||
			strings.Contains(g, "github.com/free5gc/chf/pkg/rf.handleSUR") {
			keep = append(keep, g)
		}
	}
	// the goroutine executing the request first
	sort.SliceStable(keep, func(i, j int) bool {
		return strings.Contains(keep[i], "internal/sbi/processor.") && !strings.Contains(keep[j], "internal/sbi/processor.")
	})
	s := strings.Join(keep, "\n\n")
	if len(s) > 16000 {
		s = s[:16000]
	}
	return s
}

// Fingerprint is a hash of everything observable about the run (for the determinism
// self-test).
func (h *History) Fingerprint() string {
	hs := sha256.New()
	var dbg *os.File
	if p := os.Getenv("VERIF_FP_DEBUG"); p != "" {
		dbg, _ = os.OpenFile(p, os.O_CREATE|os.O_WRONLY|os.O_APPEND, 0o644)
		defer dbg.Close()
		fmt.Fprintf(dbg, "==== seed %d\n", h.Scenario.Seed)
	}
	w := func(f string, a ...interface{}) {
		fmt.Fprintf(hs, f, a...)
		if dbg != nil {
			fmt.Fprintf(dbg, f, a...)
		}
	}
	all := append(append([]*OpResult(nil), h.Ops...), h.Epilogue...)
	for _, o := range all {
		w("op %d t%d %d-%d done=%v st=%d loc=%s body=%s\n", o.Op.ID, o.Task, o.StartNs, o.EndNs, o.Done, o.Status, o.Location, stripTS(o.RespBody))
		for _, a := range o.Post {
			w(" post %s %d q=%d r=%d\n", a.Supi, a.RG, a.Quota, a.Reserved)
		}
	}
	for _, a := range h.Final {
		w("final %s %d q=%d r=%d\n", a.Supi, a.RG, a.Quota, a.Reserved)
	}
	msgs := append([]*simnet.Msg(nil), h.Msgs...)
	sort.SliceStable(msgs, func(i, j int) bool {
		if msgs[i].SentAt != msgs[j].SentAt {
			return msgs[i].SentAt < msgs[j].SentAt
		}
		if msgs[i].Task != msgs[j].Task {
			return msgs[i].Task < msgs[j].Task
		}
		if msgs[i].ConnOrd != msgs[j].ConnOrd {
			return msgs[i].ConnOrd < msgs[j].ConnOrd
		}
		return !msgs[i].ToClient && msgs[j].ToClient
	})
	for _, m := range msgs {
		w("msg c%d %s t%d op%d toc=%v cmd=%d req=%v sent=%d del=%d fault=%s len=%d\n", m.ConnOrd, m.Peer, m.Task, m.Op, m.ToClient, m.Cmd, m.Request, m.SentAt, m.DeliverAt, m.Fault, len(m.Raw))
	}
	for _, e := range h.FTP {
		w("ftp %d s%d %s %s %d %x\n", e.At, e.Sess, e.What, e.Name, e.Size, e.Sum)
	}
	for _, j := range h.Journal {
		s := sha256.Sum256(j.Data)
		w("write %d t%d %s %x\n", j.At, j.Task, j.Path, s[:6])
	}
	for _, n := range h.Notifs {
		w("notif %d %s %s %v\n", n.At, n.Method, n.URL, n.RGs)
	}
	// the goroutine count is process-wide and carries +-1 of real-time noise from outside the
	// bubble (test-runner goroutines finishing); the fingerprint records it in steps of 8,
	// far below the slack of the C18 bound
	goDelta := 0
	if h.Scenario.Cfg.SettleNs > 0 {
		goDelta = (h.Goroutines - h.GoBase + 4) / 8
	}
	w("census %+v go~%d end=%d aborted=%v\n", h.Census, goDelta, h.SimEndNs, h.Aborted)
	return hex.EncodeToString(hs.Sum(nil)[:12])
}

// stripTS removes the invocationTimeStamp value (it is simulated time and deterministic,
// kept anyway; the function exists so the fingerprint survives format changes).
func stripTS(s string) string { return s }

var _ = http.StatusOK
