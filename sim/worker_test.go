//go:debug asynctimerchan=0
package verifsim

import (
	"bufio"
	"encoding/json"
	"fmt"
	"os"
	"runtime"
	"strconv"
	"sync/atomic"
	"testing"
	"testing/synctest"
	"time"
)

// runInBubble executes one scenario inside a fresh synctest bubble.
func runInBubble(t *testing.T, sc *Scenario) (h *History, dirty bool) {
	defer func() {
		if r := recover(); r != nil {
			// synctest panics when goroutines stay parked after the root returned (the two
			// printErrors goroutines of the servers never exit; a wedged run leaves more).
			if h == nil {
				panic(r)
			}
			dirty = h.Aborted
		}
	}()
	if sc.Cfg.SettleNs > 0 {
		// the task census compares process-wide goroutine counts: let stragglers of the
		// previous run (its test-runner goroutine finishing in real time) disappear first
		prev := -1
		for i := 0; i < 100; i++ {
			n := runtime.NumGoroutine()
			if n == prev {
				break
			}
			prev = n
			time.Sleep(300 * time.Microsecond)
		}
	}
	synctest.Test(t, func(t *testing.T) {
		if (sc.Prop == "C07" || sc.Prop == "C08") && !sc.Cfg.WholeSystem {
			h = RunDiam(sc)
		} else {
			h = Run(sc)
		}
	})
	return h, false
}

type runLine struct {
	I          int64       `json:"i"`
	Seed       uint64      `json:"seed"`
	Prop       string      `json:"prop"`
	Shape      string      `json:"shape"`
	NOps       int         `json:"n_ops"`
	FP         string      `json:"fp"`
	WallUs     int64       `json:"wall_us"`
	Violations []Violation `json:"violations"`
	Stats      RunStats    `json:"stats"`
	Scenario   *Scenario   `json:"scenario,omitempty"`
	EnumSize   int         `json:"enum_size,omitempty"` // size of the enumerated part of the index space (C11, C19)
}

func envInt(name string, def int64) int64 {
	if v := os.Getenv(name); v != "" {
		if n, err := strconv.ParseInt(v, 10, 64); err == nil {
			return n
		}
	}
	return def
}

var runProgress atomic.Int64

// stallWatch kills the worker when one simulated run makes no progress in real time: every
// goroutine of the bubble is then waiting on something the simulator does not control (a
// channel or timer created outside the bubble, a real lock held across simulated I/O, a
// real socket).  That is a limit of the harness, not a verdict: exit status 3.
func stallWatch(limit time.Duration) {
	go func() {
		last, since := runProgress.Load(), time.Now()
		for {
			time.Sleep(time.Second)
			if cur := runProgress.Load(); cur != last {
				last, since = cur, time.Now()
				continue
			}
			if time.Since(since) > limit {
				buf := make([]byte, 1<<20)
				n := runtime.Stack(buf, true)
				fmt.Fprintf(os.Stderr, "STALLED: no run finished for %v of real time; the simulated clock cannot advance because a goroutine waits on something created outside the simulation\n%s\n", limit, buf[:n])
				os.Exit(3)
			}
		}
	}()
}

func execScenario(t *testing.T, sc *Scenario, i int64, keepScenario bool) (runLine, bool) {
	t0 := time.Now()
	defer runProgress.Add(1)
	h, dirty := runInBubble(t, sc)
	vs := Check(sc.Prop, h)
	n := 0
	for _, tk := range sc.Tasks {
		n += len(tk.Ops)
	}
	line := runLine{I: i, Seed: sc.Seed, Prop: sc.Prop, Shape: sc.Shape, NOps: n, FP: h.Fingerprint(),
		WallUs: time.Since(t0).Microseconds(), Violations: vs, Stats: Stats(h)}
	if len(vs) > 0 || keepScenario {
		line.Scenario = sc
	}
	switch sc.Prop {
	case "C11":
		line.EnumSize = C11EnumSize()
	case "C19":
		line.EnumSize = C19EnumSize()
	}
	return line, dirty || h.Aborted
}

// TestWorker is the entry point used by bin/check.
//
//	VERIF_MODE=search  VERIF_PROP VERIF_SEED_BASE VERIF_FROM VERIF_COUNT VERIF_OUT [VERIF_SAMPLES]
//	VERIF_MODE=replay  VERIF_SCENARIO VERIF_OUT
func TestWorker(t *testing.T) {
	mode := os.Getenv("VERIF_MODE")
	if mode == "" {
		t.Skip("VERIF_MODE not set")
	}
	outPath := os.Getenv("VERIF_OUT")
	f, err := os.OpenFile(outPath, os.O_CREATE|os.O_WRONLY|os.O_APPEND, 0o644)
	if err != nil {
		fmt.Fprintln(os.Stderr, "worker: cannot open output:", err)
		os.Exit(2)
	}
	w := bufio.NewWriter(f)
	emit := func(v interface{}) {
		b, _ := json.Marshal(v)
		w.Write(b)
		w.WriteByte('\n')
		w.Flush()
	}
	stallWatch(time.Duration(envInt("VERIF_STALL_S", 150)) * time.Second)
	switch mode {
	case "replay":
		data, err := os.ReadFile(os.Getenv("VERIF_SCENARIO"))
		if err != nil {
			fmt.Fprintln(os.Stderr, "worker: cannot read scenario:", err)
			os.Exit(2)
		}
		var sc Scenario
		if err := json.Unmarshal(data, &sc); err != nil {
			fmt.Fprintln(os.Stderr, "worker: bad scenario:", err)
			os.Exit(2)
		}
		emit(map[string]interface{}{"start": 0})
		line, _ := execScenario(t, &sc, 0, false)
		line.Scenario = nil
		emit(line)
	case "gen":
		prop := os.Getenv("VERIF_PROP")
		seed := uint64(envInt("VERIF_SEED_BASE", 1))<<20 + uint64(envInt("VERIF_FROM", 0))
		sc := Generate(prop, seed)
		if sc == nil {
			os.Exit(2)
		}
		emit(map[string]interface{}{"scenario": sc})
	case "search":
		prop := os.Getenv("VERIF_PROP")
		base := uint64(envInt("VERIF_SEED_BASE", 1))
		from := envInt("VERIF_FROM", 0)
		count := envInt("VERIF_COUNT", 1)
		samples := envInt("VERIF_SAMPLES", 0)
		deadline := time.Now().Add(time.Duration(envInt("VERIF_WALL_S", 3600)) * time.Second)
		stride := envInt("VERIF_STRIDE", 1)
		for k := int64(0); k < count; k++ {
			i := from + k*stride
			if time.Now().After(deadline) {
				emit(map[string]interface{}{"stopped_at": i, "reason": "wall budget"})
				break
			}
			seed := base<<20 + uint64(i)
			sc := Generate(prop, seed)
			if sc == nil {
				fmt.Fprintln(os.Stderr, "worker: no generator for", prop)
				os.Exit(2)
			}
			emit(map[string]interface{}{"start": i})
			line, dirty := execScenario(t, sc, i, i-from < samples)
			emit(line)
			if dirty {
				// a run that ended with a wedged request cannot be proven clean: retire this process
				emit(map[string]interface{}{"retired_after": i})
				break
			}
		}
	default:
		fmt.Fprintln(os.Stderr, "worker: unknown mode", mode)
		os.Exit(2)
	}
	f.Close()
}

func TestSmoke(t *testing.T) {
	if os.Getenv("VERIF_SMOKE") == "" {
		t.Skip()
	}
	prop := os.Getenv("VERIF_PROP")
	n := envInt("VERIF_COUNT", 20)
	for i := int64(0); i < n; i++ {
		sc := Generate(prop, uint64(envInt("VERIF_SEED_BASE", 1))<<20+uint64(i))
		line, _ := execScenario(t, sc, i, false)
		fmt.Printf("seed %d ops=%d wall=%dus sim=%.3fs fp=%s shape=%q probes=%v statuses=%v\n", line.Seed, line.NOps, line.WallUs, float64(line.Stats.SimNs)/1e9, line.FP, line.Shape, line.Stats.Probes, line.Stats.Statuses)
		for _, v := range line.Violations {
			fmt.Printf("   VIOLATION %s | %s\n", v.Key(), v.Detail)
		}
	}
}

func TestEnumSizes(t *testing.T) {
	if os.Getenv("VERIF_SMOKE") == "" {
		t.Skip()
	}
	fmt.Println("C11 enumeration:", C11EnumSize(), "C19 enumeration:", C19EnumSize())
}
