package verifsim

import (
	"encoding/json"
	"fmt"
	"sort"
	"strings"

	"github.com/free5gc/chf/internal/verifsim/simnet"
)

func init() {
	extraGenerators["C11"] = GenC11
	extraGenerators["C10"] = GenC10
	extraGenerators["C18"] = GenC18
	extraGenerators["C19"] = GenC19
	extraGenerators["C09"] = GenC09
}

// ---------------------------------------------------------------- C11

// fullBody is a request body with every member the handlers look at present.
func fullBody(supi string, kind string, isn int) map[string]interface{} {
	m := map[string]interface{}{
		"subscriberIdentifier": supi,
		"nfConsumerIdentification": map[string]interface{}{
			"nFName": "smf-c11", "nFIPv4Address": "10.0.0.9", "nFIPv6Address": "2001:db8::9",
			"nFPLMNID": map[string]interface{}{"mcc": "208", "mnc": "93"}, "nodeFunctionality": "SMF", "nFFqdn": "smf.example",
		},
		"invocationTimeStamp":      "2000-01-01T00:00:00Z",
		"invocationSequenceNumber": isn,
		"chargingId":               77,
		"serviceSpecificationInfo": "32.255",
		"multipleUnitUsage": []interface{}{
			map[string]interface{}{
				"ratingGroup":   1,
				"requestedUnit": map[string]interface{}{"totalVolume": 1000},
				"uPFID":         "upf-1",
				"usedUnitContainer": []interface{}{
					map[string]interface{}{"quotaManagementIndicator": "ONLINE_CHARGING", "totalVolume": 10, "uplinkVolume": 5, "downlinkVolume": 5,
						"serviceSpecificUnits": 1, "localSequenceNumber": 9000 + isn, "triggers": []interface{}{}},
				},
			},
		},
		"pDUSessionChargingInformation": map[string]interface{}{
			"chargingId":      77,
			"userInformation": map[string]interface{}{"servedGPSI": "msisdn-0900000000"},
			"pduSessionInformation": map[string]interface{}{
				"pduSessionID": 1, "dnnId": "internet", "pduType": "IPV4",
				"networkSlicingInfo": map[string]interface{}{"sNSSAI": map[string]interface{}{"sst": 1, "sd": "010203"}},
				"servingNetworkFunctionID": map[string]interface{}{
					"servingNetworkFunctionInformation": map[string]interface{}{"nodeFunctionality": "SMF"},
				},
			},
		},
	}
	if kind == "create" {
		m["notifyUri"] = "http://smf.sim/notify/" + supi
	}
	if kind == "release" {
		m["triggers"] = []interface{}{map[string]interface{}{"triggerType": "FINAL", "triggerCategory": "IMMEDIATE_REPORT"}}
	}
	return m
}

// jsonPaths lists every member path of a body ("a.b.0.c").
func jsonPaths(v interface{}, prefix string, out *[]string) {
	switch x := v.(type) {
	case map[string]interface{}:
		keys := make([]string, 0, len(x))
		for k := range x {
			keys = append(keys, k)
		}
		sort.Strings(keys)
		for _, k := range keys {
			p := k
			if prefix != "" {
				p = prefix + "." + k
			}
			*out = append(*out, p)
			jsonPaths(x[k], p, out)
		}
	case []interface{}:
		for i, e := range x {
			jsonPaths(e, fmt.Sprintf("%s.%d", prefix, i), out)
		}
	}
}

// mutate applies op ("del", "null", "empty") at path.
func mutate(v interface{}, path []string, how string) {
	if len(path) == 0 {
		return
	}
	switch x := v.(type) {
	case map[string]interface{}:
		if len(path) == 1 {
			switch how {
			case "del":
				delete(x, path[0])
			case "null":
				x[path[0]] = nil
			case "empty":
				switch x[path[0]].(type) {
				case map[string]interface{}:
					x[path[0]] = map[string]interface{}{}
				case []interface{}:
					x[path[0]] = []interface{}{}
				case string:
					x[path[0]] = ""
				default:
					x[path[0]] = 0
				}
			}
			return
		}
		mutate(x[path[0]], path[1:], how)
	case []interface{}:
		var i int
		fmt.Sscanf(path[0], "%d", &i)
		if i < len(x) {
			mutate(x[i], path[1:], how)
		}
	}
}

func deepCopy(m map[string]interface{}) map[string]interface{} {
	b, _ := json.Marshal(m)
	var out map[string]interface{}
	_ = json.Unmarshal(b, &out)
	return out
}

var oddSupis = []string{"imsi-", "imsi", "", "imsi-1", "imsi-208930000000001/x", "imsi-../etc", "nai-", "nai-a", "gci-", "gli-x", "msisdn-1", "x",
	"imsi-20893000000000100000000000000000", "imsi-2089%2F3", "nai-user@realm", "IMSI-208930000000001",
	"imsi-" + strings.Repeat("1234567890", 30), "imsi-" + strings.Repeat("1234567890", 25), "imsi-" + strings.Repeat("7", 246), "imsi-" + strings.Repeat("7", 247),
	"imsi-" + strings.Repeat("7", 255), "imsi-" + strings.Repeat("7", 16), "imsi-20893\x00", "imsi-２０８９３", "imsi-208 93", "imsi-208930000000001.cdr", "imsi-.", "imsi-.."}

var oddRecharge = []string{"nounderscore", "_", "__", "imsi-208930000000001_", "_1", "imsi-208930000000001_x", "imsi-208930000000001_1_2",
	"imsi-208930000000001_-1", "imsi-208930000000001_99999999999", "unknown_1", "%20", "imsi-208930000000001_1"}

var oddPlmn = [][2]string{{"20", "93"}, {"208", "9"}, {"", ""}, {"2080", "930"}, {"208", ""}, {"xyz", "93"}, {"208", "9301"},
	{"20", "893"}, {"2089", "3"}, {"2", "0893"}, {"20893", ""}, {"", "20893"}, {"2089", "30"}, {"2", "08930"}, {"208930", ""},
	{"é1", "93"}, {"208", "é"}, {"２０８", "93"}, {"20\u00e9", "9\u00e9"}, {"208", "\u20ac"}}

// c11Enumeration: (route, path, how) for all single member mutations, then all pairs of
// top-level / second-level deletions.
type c11Mut struct {
	route string // create | update | release
	name  string
	apply func(m map[string]interface{})
}

var c11Enum []c11Mut

func buildC11Enum() {
	var specials, singles, pairs []c11Mut
	for _, route := range []string{"create", "update", "release"} {
		tmpl := fullBody(supiN(1), route, 1)
		var paths []string
		jsonPaths(tmpl, "", &paths)
		for _, p := range paths {
			for _, how := range []string{"del", "null", "empty"} {
				p, how := p, how
				singles = append(singles, c11Mut{route, how + ":" + p, func(m map[string]interface{}) { mutate(m, strings.Split(p, "."), how) }})
			}
		}
		// pairs of deletions among the paths of depth <= 2
		var shallow []string
		for _, p := range paths {
			if strings.Count(p, ".") <= 2 {
				shallow = append(shallow, p)
			}
		}
		for i := 0; i < len(shallow); i++ {
			for j := i + 1; j < len(shallow); j++ {
				a, b := shallow[i], shallow[j]
				if strings.HasPrefix(b, a+".") {
					continue
				}
				pairs = append(pairs, c11Mut{route, "del:" + a + "+del:" + b, func(m map[string]interface{}) {
					mutate(m, strings.Split(b, "."), "del")
					mutate(m, strings.Split(a, "."), "del")
				}})
			}
		}
		for _, s := range oddSupis {
			s := s
			specials = append(specials, c11Mut{route, "supi:" + s, func(m map[string]interface{}) { m["subscriberIdentifier"] = s }})
		}
		for _, pl := range oddPlmn {
			pl := pl
			specials = append(specials, c11Mut{route, "plmn:" + pl[0] + "/" + pl[1], func(m map[string]interface{}) {
				m["nfConsumerIdentification"].(map[string]interface{})["nFPLMNID"] = map[string]interface{}{"mcc": pl[0], "mnc": pl[1]}
			}})
		}
	}
	c11Enum = append(append(specials, singles...), pairs...)
}

// C11EnumSize is the number of enumerated probes (x3 subscriber states).
func C11EnumSize() int {
	if c11Enum == nil {
		buildC11Enum()
	}
	return len(c11Enum)*3 + len(oddRecharge)*3
}

// genNotifyCallback: a recharge whose notification makes the SMF send a request for the same
// subscriber before it answers the notification (or answers it slowly while another task
// sends one).  Nothing is faulty and every peer is prompt, so every request must be too.
func genNotifyCallback(g *gen) *Scenario {
	supi := supiN(1)
	g.sc.Cfg.MaxLatNs = 2_000_000
	g.sc.Cfg.YieldPermille = 0
	g.sc.Cfg.DBDelayMaxNs = 0
	g.sc.Accounts = []Account{{Supi: supi, RG: 1, Quota: 5_000_000, UnitCost: "2"}}
	pro := []Op{{ID: g.id(), Kind: "create", Supi: supi, Sess: "s", Consumer: "smf", ChargingID: 4, NotifyURI: "http://smf.sim/notify/" + supi, Role: "setup"},
		{ID: g.id(), Kind: "update", Supi: supi, Sess: "s", Role: "setup", Units: []Unit{{RG: 1, Req: 500, Containers: []Container{g.online(0)}}}}}
	cb := Op{Kind: "update", Supi: supi, Sess: "s", Units: []Unit{{RG: 1, Req: 100, Containers: []Container{g.online(500)}}}}
	switch g.r.Intn(3) {
	case 1:
		cb = Op{Kind: "create", Supi: supi, Sess: "cb", Consumer: "smf2", ChargingID: 5}
	case 2:
		cb.Units[0].Containers = []Container{g.offline()}
	}
	variant := g.r.Intn(2)
	if variant == 0 {
		// the SMF calls back from inside its notification handler
		g.sc.Cfg.SinkCallback = &cb
		pro = append(pro, Op{ID: g.id(), Kind: "recharge", Supi: supi, RG: 1, Role: "probe", Sess: "recharge-with-callback"},
			Op{ID: g.id(), Kind: "update", Supi: supi, Sess: "s", Role: "followup", Units: []Unit{{RG: 1, Req: 100, Containers: []Container{g.online(0)}}}})
		g.sc.Tasks = []Task{{ID: 0, Ops: pro}}
	} else {
		// the SMF is slow to answer the notification while another request of the subscriber arrives
		g.sc.Cfg.Concurrent = true
		g.sc.Cfg.SinkDelayNs = 9_000_000_000
		during := cb
		during.ID = g.id()
		during.Role = "during-notification"
		g.sc.Tasks = []Task{{ID: 0, Ops: pro},
			{ID: 1, StartNs: 1_000_000_000, Ops: []Op{{ID: g.id(), Kind: "recharge", Supi: supi, RG: 1, Role: "probe", Sess: "recharge-slow-smf"}}},
			{ID: 2, StartNs: 1_000_000_000 + g.r.Range(100_000_000, 3_000_000_000), Ops: []Op{during}}}
	}
	g.sc.Shape = fmt.Sprintf("notify-callback variant=%d cb=%s", variant, cb.Kind)
	return g.sc
}

// genC11History: a well-formed but long history that crosses the 64 KiB record split once
// or twice ("any order of requests"): every request must still be answered without 5xx.
func genC11History(g *gen) *Scenario {
	supi := supiN(1)
	g.sc.Cfg.MaxLatNs = 300_000
	g.sc.Accounts = []Account{{Supi: supi, RG: 1, Quota: 3_000_000_000, UnitCost: "1"}}
	s := &sessState{name: "s", supi: supi, rgs: []int32{1}}
	ops := []Op{{ID: g.id(), Kind: "create", Supi: supi, Sess: "s", Consumer: "smf", ChargingID: 1, Role: "setup"}}
	for i, n := 0, 9+g.r.Intn(8); i < n; i++ {
		op := g.cdrUsageOp("update", s, 300+g.r.Intn(200), false, false)
		op.Role = "probe"
		op.Sess = "s"
		ops = append(ops, op)
	}
	rel := g.cdrUsageOp("release", s, 1+g.r.Intn(5), true, false)
	rel.Role = "followup"
	ops = append(ops, rel)
	g.sc.Shape = "history split-crossing"
	g.sc.Tasks = []Task{{ID: 0, Ops: ops}}
	return g.sc
}

func GenC11(seed uint64) *Scenario {
	if c11Enum == nil {
		buildC11Enum()
	}
	g := newGen("C11", seed)
	if idx := int(seed & 0xFFFFF); idx >= C11EnumSize() || idx%97 == 96 {
		switch r := g.r.Intn(100); {
		case r < 10:
			return genNotifyCallback(g)
		case r < 12:
			return genC11History(g)
		}
	}
	g.sc.Cfg.MaxLatNs = 300_000
	g.sc.Cfg.OpBudgetNs = 60_000_000_000
	idx := int(seed & 0xFFFFF)
	supi := supiN(1)
	g.sc.Accounts = []Account{{Supi: supi, RG: 1, Quota: 1_000_000, UnitCost: "2"}, {Supi: supi, RG: 2, Quota: 1_000_000, UnitCost: "1"}}

	state := idx % 3 // 0 unknown subscriber, 1 open session, 2 released session
	k := idx / 3
	var ops []Op
	if state >= 1 {
		ops = append(ops, Op{ID: g.id(), Kind: "create", Supi: supi, Sess: "s0", Consumer: "smf0", ChargingID: 5, Role: "setup"},
			Op{ID: g.id(), Kind: "update", Supi: supi, Sess: "s0", Role: "setup", Units: []Unit{{RG: 1, Req: 500, Containers: []Container{g.online(0)}}}})
	}
	if state == 2 {
		ops = append(ops, Op{ID: g.id(), Kind: "release", Supi: supi, Sess: "s0", Final: true, Role: "setup",
			Units: []Unit{{RG: 1, Req: 0, Containers: []Container{g.online(500)}}}})
	}
	probeSupi := supi
	var probe Op
	nMut := len(c11Enum)
	nRe := len(oddRecharge)
	switch {
	case k >= nRe && k < nRe+nMut: // enumerated body mutation
		mu := c11Enum[k-nRe]
		body := fullBody(supi, mu.route, 50)
		mu.apply(body)
		probe = g.rawProbe(mu.route, mu.name, body, state)
		if s, ok := body["subscriberIdentifier"].(string); ok {
			probeSupi = s
		} else {
			probeSupi = ""
		}
	case k < nRe:
		info := oddRecharge[k]
		probe = Op{ID: g.id(), Kind: "raw", Role: "probe", Sess: "recharge:" + info, Method: "PUT", Path: basePath + "/recharging/" + info, Supi: supi}
		if g.r.Chance(200) {
			probe.Method = "GET"
			probe.Path = basePath + "/recharging"
		}
	default: // random: 1..4 mutations of random kinds on a random route
		route := []string{"create", "update", "release"}[g.r.Intn(3)]
		body := fullBody(supi, route, 50)
		var paths []string
		jsonPaths(body, "", &paths)
		n := 1 + g.r.Intn(4)
		var names []string
		for i := 0; i < n; i++ {
			switch g.r.Intn(6) {
			case 0:
				s := oddSupis[g.r.Intn(len(oddSupis))]
				body["subscriberIdentifier"] = s
				names = append(names, "supi:"+s)
			case 1:
				pl := oddPlmn[g.r.Intn(len(oddPlmn))]
				if c, ok := body["nfConsumerIdentification"].(map[string]interface{}); ok {
					c["nFPLMNID"] = map[string]interface{}{"mcc": pl[0], "mnc": pl[1]}
					names = append(names, "plmn:"+pl[0]+"/"+pl[1])
				}
			default:
				p := paths[g.r.Intn(len(paths))]
				how := []string{"del", "null", "empty"}[g.r.Intn(3)]
				mutate(body, strings.Split(p, "."), how)
				names = append(names, how+":"+p)
			}
		}
		probe = g.rawProbe(route, strings.Join(names, "+"), body, state)
		if s, ok := body["subscriberIdentifier"].(string); ok {
			probeSupi = s
		} else {
			probeSupi = ""
		}
	}
	if idx >= C11EnumSize() && g.r.Chance(150) {
		// cgf.enable: true — accepted creates / updates also transfer the CDR file over the cached FTP
		// control connection, which the billing domain closes when idle and loses when it restarts
		g.sc.Cfg.Cgf = true
		g.sc.Cfg.CgfIdleNs = []int64{0, 400_000, 3_000_000, 1_000_000_000}[g.r.Intn(4)]
		if g.r.Chance(500) {
			ops = append(ops, Op{ID: g.id(), Kind: "ftprestart", Role: "setup"})
		}
	}
	ops = append(ops, probe)
	g.sc.Shape = fmt.Sprintf("state=%d probe=%s", state, probe.Sess)
	if g.sc.Cfg.Cgf {
		g.sc.Shape += " cgf"
	}
	// follow-ups: well-formed requests for the same subscriber
	fs := probeSupi
	if fs == "" {
		fs = supi
	}
	// the first follow-up is a recharge notification for the subscriber as the probe left it
	// (e.g. a session created without notifyUri), then a fresh session
	ops = append(ops,
		Op{ID: g.id(), Kind: "recharge", Supi: fs, RG: 1, Role: "followup"},
		Op{ID: g.id(), Kind: "create", Supi: fs, Sess: "f1", Consumer: "smf-f", ChargingID: 6, Role: "followup"},
		Op{ID: g.id(), Kind: "update", Supi: fs, Sess: "f1", Role: "followup", Units: []Unit{{RG: 1, Req: 100, Containers: []Container{g.online(0)}}}},
		Op{ID: g.id(), Kind: "release", Supi: fs, Sess: "f1", Role: "followup", Final: true, Units: []Unit{{RG: 1, Req: 0, Containers: []Container{g.online(100)}}}})
	if fs != supi || state >= 1 {
		// the original subscriber must still be served too
		ops = append(ops, Op{ID: g.id(), Kind: "create", Supi: supi, Sess: "f2", Consumer: "smf-g", ChargingID: 7, Role: "followup"},
			Op{ID: g.id(), Kind: "update", Supi: supi, Sess: "f2", Role: "followup", Units: []Unit{{RG: 1, Req: 100, Containers: []Container{g.online(0)}}}})
	}
	g.sc.Tasks = []Task{{ID: 0, Ops: ops}}
	return g.sc
}

func (g *gen) rawProbe(route, name string, body map[string]interface{}, state int) Op {
	b, _ := json.Marshal(body)
	op := Op{ID: g.id(), Kind: "raw", Role: "probe", Sess: route + ":" + name, Method: "POST", Body: b}
	if s, ok := body["subscriberIdentifier"].(string); ok {
		op.Supi = s
	}
	ref := "imsi-208930000000001nosuch0"
	if state >= 1 {
		ref = "{ref:s0}"
	}
	switch route {
	case "create":
		op.Path = basePath + "/chargingdata"
	case "update":
		op.Path = basePath + "/chargingdata/" + ref + "/update"
	case "release":
		op.Path = basePath + "/chargingdata/" + ref + "/release"
	}
	return op
}

// ---------------------------------------------------------------- C10

var c10Supis = []string{"imsi-1", "imsi-12", "imsi-123", "imsi-1234", "imsi-2", "imsi-21", "imsi-20893000000001", "imsi-208930000000011", "imsi-2089300000000"}
var c10Names = []string{"", "1", "10", "2", "23", "3", "smf", "smf1", "smf10", "x", "x1", "0", "00", "4", "SMF West 1", "a b", "a+b", "smf@west", "smf~1", "smf.west"}

func GenC10(seed uint64) *Scenario {
	g := newGen("C10", seed)
	g.sc.Cfg.MemRecords = true
	g.sc.Cfg.MaxLatNs = 300_000
	conc := g.r.Chance(350)
	nSupi := 2 + g.r.Intn(4)
	perm := g.r.Intn(len(c10Supis))
	var supis []string
	for i := 0; i < nSupi; i++ {
		s := c10Supis[(perm+i)%len(c10Supis)]
		supis = append(supis, s)
		g.sc.Accounts = append(g.sc.Accounts, Account{Supi: s, RG: 1, Quota: 2_000_000_000, UnitCost: "1"})
	}
	// a long-running CHF: the record counter starts near a power of two
	if g.r.Chance(250) {
		g.sc.Cfg.CounterStart = []uint64{1<<32 - 3, 1<<32 - 1, 1<<31 - 2, 1<<16 - 2, 1<<33 - 2, 99, 999}[g.r.Intn(7)]
	}
	g.sc.Shape = fmt.Sprintf("conc=%v supis=%d counter=%d", conc, nSupi, g.sc.Cfg.CounterStart)
	if !conc && g.r.Chance(60) {
		return genC10Split(g, supis)
	}
	if !conc {
		var ops []Op
		var live []*sessState
		nCreates := 3 + g.r.Intn(30)
		pad := g.r.Intn(3) // leading creates so that the counter crosses 9->10 / 99->100 at different points
		if g.r.Chance(200) {
			pad = 95 + g.r.Intn(8)
		}
		for i := 0; i < pad; i++ {
			name := fmt.Sprintf("p%d", i)
			ops = append(ops, Op{ID: g.id(), Kind: "create", Supi: supis[0], Sess: name, Consumer: "pad", ChargingID: 1})
			ops = append(ops, Op{ID: g.id(), Kind: "release", Supi: supis[0], Sess: name, Final: true})
		}
		n := 0
		for n < nCreates {
			switch {
			case len(live) > 0 && g.r.Chance(300):
				s := live[g.r.Intn(len(live))]
				ops = append(ops, Op{ID: g.id(), Kind: "update", Supi: s.supi, Sess: s.name,
					Units: []Unit{{RG: 1, Req: 10, Containers: []Container{g.offline(), g.offline()}}}})
			case len(live) > 2 && g.r.Chance(150):
				i := g.r.Intn(len(live))
				s := live[i]
				ops = append(ops, Op{ID: g.id(), Kind: "release", Supi: s.supi, Sess: s.name, Final: true,
					Units: []Unit{{RG: 1, Req: 0, Containers: []Container{g.offline()}}}})
				live = append(live[:i], live[i+1:]...)
			case g.r.Chance(120):
				// a one-time (event) charging request: opens and closes a record, no session
				ops = append(ops, Op{ID: g.id(), Kind: "create", OneTime: true, Supi: supis[g.r.Intn(len(supis))], Sess: fmt.Sprintf("ev%d", len(ops)),
					Consumer: c10Names[g.r.Intn(len(c10Names))], ChargingID: 7})
			default:
				s := &sessState{name: fmt.Sprintf("c%d", n), supi: supis[g.r.Intn(len(supis))]}
				ops = append(ops, Op{ID: g.id(), Kind: "create", Supi: s.supi, Sess: s.name, Consumer: c10Names[g.r.Intn(len(c10Names))], ChargingID: int32(n)})
				live = append(live, s)
				n++
			}
		}
		// a long-lived session and 2^32 records later: the counter is moved to the value that makes the
		// next record number congruent (mod 2^32) to the one of a live session, and that session's
		// subscriber and consumer create again
		if len(live) > 0 && g.r.Chance(200) {
			k := g.r.Intn(len(live))
			var victim *Op
			cnt := g.sc.Cfg.CounterStart
			for i := range ops {
				if ops[i].Kind == "create" {
					cnt++
					if ops[i].Sess == live[k].name {
						victim = &ops[i]
						break
					}
				}
			}
			if victim != nil {
				ops = append(ops, Op{ID: g.id(), Kind: "ctrset", TopUp: int64(cnt) + (1 << 32) - 1})
				ops = append(ops, Op{ID: g.id(), Kind: "create", Supi: victim.Supi, Sess: "wrap", Consumer: victim.Consumer, ChargingID: 4242})
				live = append(live, &sessState{name: "wrap", supi: victim.Supi})
			}
		}
		// finally address every live reference once more
		for _, s := range live {
			ops = append(ops, Op{ID: g.id(), Kind: "update", Supi: s.supi, Sess: s.name,
				Units: []Unit{{RG: 1, Req: 10, Containers: []Container{g.offline()}}}})
		}
		g.sc.Tasks = []Task{{ID: 0, Ops: ops}}
		return g.sc
	}
	// concurrent creates of different subscribers: the interleaving around the global
	// counter is decided by start offsets and yields
	g.sc.Cfg.Concurrent = true
	g.sc.Cfg.YieldPermille = []int{0, 20, 100, 300}[g.r.Intn(4)]
	g.sc.Cfg.YieldMaxNs = []int64{1000, 50_000, 2_000_000}[g.r.Intn(3)]
	nTasks := 2 + g.r.Intn(6)
	window := []int64{0, 1000, 100_000, 5_000_000}[g.r.Intn(4)]
	// identifier pairs whose concatenation coincides: only the counter keeps their references apart
	families := [][][2]string{
		{{"imsi-1", "23"}, {"imsi-12", "3"}, {"imsi-123", ""}},
		{{"imsi-2", "1x"}, {"imsi-21", "x"}},
		{{"imsi-20893000000001", "1smf"}, {"imsi-208930000000011", "smf"}},
		{{"imsi-2089300000000", "10"}, {"imsi-20893000000001", "0"}},
	}
	var fam [][2]string
	if g.r.Chance(600) {
		fam = families[g.r.Intn(len(families))]
		have := map[string]bool{}
		for _, a := range g.sc.Accounts {
			have[a.Supi] = true
		}
		for _, p := range fam {
			if !have[p[0]] {
				g.sc.Accounts = append(g.sc.Accounts, Account{Supi: p[0], RG: 1, Quota: 2_000_000_000, UnitCost: "1"})
			}
		}
	}
	for t := 0; t < nTasks; t++ {
		supi := supis[t%len(supis)]
		var ops []Op
		for k := 0; k < 1+g.r.Intn(3); k++ {
			name := fmt.Sprintf("t%dk%d", t, k)
			consumer := c10Names[g.r.Intn(len(c10Names))]
			if fam != nil {
				p := fam[(t+k)%len(fam)]
				supi, consumer = p[0], p[1]
			}
			if g.r.Chance(200) {
				ops = append(ops, Op{ID: g.id(), Kind: "create", OneTime: true, Supi: supi, Sess: "ev" + name, Consumer: consumer, ChargingID: 7})
			}
			ops = append(ops, Op{ID: g.id(), Kind: "create", Supi: supi, Sess: name, Consumer: consumer, ChargingID: int32(t*10 + k)})
			if g.r.Chance(500) {
				ops = append(ops, Op{ID: g.id(), Kind: "update", Supi: supi, Sess: name, Units: []Unit{{RG: 1, Req: 10, Containers: []Container{g.offline()}}}})
			}
			if g.r.Chance(150) {
				// create, release, create again: the subscriber's last session goes away while others create
				ops = append(ops, Op{ID: g.id(), Kind: "release", Supi: supi, Sess: name, Final: true})
				name += "b"
				ops = append(ops, Op{ID: g.id(), Kind: "create", Supi: supi, Sess: name, Consumer: consumer, ChargingID: int32(t*10 + k)})
			}
		}
		g.sc.Tasks = append(g.sc.Tasks, Task{ID: t, StartNs: g.r.Range(0, window), Ops: ops})
	}
	// epilogue: address every reference
	rel := map[string]bool{}
	for _, t := range g.sc.Tasks {
		for _, o := range t.Ops {
			if o.Kind == "release" {
				rel[o.Sess] = true
			}
		}
	}
	for _, t := range g.sc.Tasks {
		for _, o := range t.Ops {
			if o.Kind == "create" && !o.OneTime && !rel[o.Sess] {
				g.sc.Epilogue = append(g.sc.Epilogue, Op{ID: g.id(), Kind: "update", Supi: o.Supi, Sess: o.Sess, Role: "epilogue",
					Units: []Unit{{RG: 1, Req: 10, Containers: []Container{g.offline()}}}})
			}
		}
	}
	return g.sc
}

// genC10Split: two or three sessions of one subscriber (and a one-time event), then fat
// updates on the OLDEST session until its record is split: the reference must keep
// designating that session.
func genC10Split(g *gen, supis []string) *Scenario {
	supi := supis[0]
	g.sc.Cfg.MemRecords = true
	var ops []Op
	n := 2 + g.r.Intn(2)
	for i := 0; i < n; i++ {
		ops = append(ops, Op{ID: g.id(), Kind: "create", Supi: supi, Sess: fmt.Sprintf("s%d", i), Consumer: fmt.Sprintf("smf-%c", 'a'+i), ChargingID: int32(111 * (i + 1))})
	}
	if g.r.Chance(400) {
		ops = append(ops, Op{ID: g.id(), Kind: "create", OneTime: true, Supi: supi, Sess: "ev", Consumer: "smf-e", ChargingID: 9})
	}
	old := &sessState{name: "s0", supi: supi, rgs: []int32{1}}
	for i, k := 0, 8+g.r.Intn(6); i < k; i++ {
		ops = append(ops, g.cdrUsageOp("update", old, 350+g.r.Intn(150), false, false))
	}
	for i := 0; i < n; i++ {
		ops = append(ops, Op{ID: g.id(), Kind: "update", Supi: supi, Sess: fmt.Sprintf("s%d", i), Units: []Unit{{RG: 1, Req: 10, Containers: []Container{g.offline()}}}})
	}
	ops = append(ops, Op{ID: g.id(), Kind: "release", Supi: supi, Sess: "s0", Final: true, Units: []Unit{{RG: 1, Req: 0, Containers: []Container{g.offline()}}}})
	for i := 1; i < n; i++ {
		ops = append(ops, Op{ID: g.id(), Kind: "update", Supi: supi, Sess: fmt.Sprintf("s%d", i), Units: []Unit{{RG: 1, Req: 10, Containers: []Container{g.offline()}}}})
	}
	g.sc.Shape += " split-family"
	g.sc.Tasks = []Task{{ID: 0, Ops: ops}}
	return g.sc
}

// ---------------------------------------------------------------- C18

func GenC18(seed uint64) *Scenario {
	g := newGen("C18", seed)
	idx := int(seed & 0xFFFFF)
	sizes := []int{10, 100, 10, 100, 30, 300, 1000}
	n := sizes[idx%len(sizes)]
	nSub := 1 + (idx/len(sizes))%3
	g.sc.Cfg.MaxLatNs = 1_000_000
	g.sc.Cfg.SettleNs = 120_000_000_000
	g.sc.Shape = fmt.Sprintf("N=%d subs=%d", n, nSub)
	var ops []Op
	for s := 1; s <= nSub; s++ {
		g.sc.Accounts = append(g.sc.Accounts, Account{Supi: supiN(s), RG: 1, Quota: 3_000_000_000, UnitCost: "1"})
		ops = append(ops, Op{ID: g.id(), Kind: "create", Supi: supiN(s), Sess: fmt.Sprintf("s%d", s), Consumer: "smf", ChargingID: int32(s)})
	}
	silent := []int{0, 0, 30, 100}[g.r.Intn(4)] // permille of updates that name a rating group nobody provisioned: both peers stay silent
	lossy := []int{0, 0, 20}[g.r.Intn(3)]       // permille of updates whose first credit answer is lost
	restarts := []int{0, 0, 50, 200}[g.r.Intn(4)] // permille of updates during which a peer closes the connection right after the handshake
	// several subscribers: half of the histories have one consumer per subscriber working in
	// parallel, so that requests of different subscribers (and their time-outs) overlap
	parallel := nSub > 1 && g.r.Chance(500)
	if parallel && silent == 0 {
		silent = []int{50, 100, 200}[g.r.Intn(3)] // overlapping time-outs of different subscribers are the point of this family
	}
	g.sc.Shape += fmt.Sprintf(" silent=%d lossy=%d restarts=%d parallel=%v", silent, lossy, restarts, parallel)
	owner := map[int]int{} // op id -> subscriber
	for i := 0; i < n; i++ {
		s := 1 + g.r.Intn(nSub)
		rg := int32(1)
		if g.r.Chance(silent) {
			rg = 9
		}
		op := Op{ID: g.id(), Kind: "update", Supi: supiN(s), Sess: fmt.Sprintf("s%d", s),
			Units: []Unit{{RG: rg, Req: int32(100 + g.r.Intn(100)), Containers: []Container{g.online(1000)}}}}
		owner[op.ID] = s
		ftask := 0
		if parallel {
			ftask = s - 1
		}
		if rg == 1 && g.r.Chance(restarts) {
			// the peer restarts right after the capabilities exchange: the request cannot be written
			g.sc.Faults = append(g.sc.Faults, simnet.Fault{Peer: []string{"rf", "abmf"}[g.r.Intn(2)], Task: ftask, Op: op.ID, Dir: "ans",
				Cmd: 257, Nth: g.r.Intn(2), Kind: simnet.KCloseAfter})
		}
		if rg == 1 && g.r.Chance(lossy) {
			g.sc.Faults = append(g.sc.Faults, simnet.Fault{Peer: []string{"rf", "abmf"}[g.r.Intn(2)], Task: ftask, Op: op.ID, Dir: "ans",
				Cmd: 0, Nth: 1, Kind: []string{simnet.KDrop, simnet.KStall, simnet.KWithhold}[g.r.Intn(3)], DelayNs: 1_000_000})
		}
		ops = append(ops, op)
		if g.r.Chance(50) {
			sl := Op{ID: g.id(), Kind: "sleep", SleepNs: g.r.Range(1, 20) * 1_000_000_000}
			owner[sl.ID] = s
			ops = append(ops, sl)
		}
	}
	g.sc.Tasks = []Task{{ID: 0, Ops: ops}}
	if parallel {
		tasks := make([]Task, nSub)
		for i := range tasks {
			tasks[i].ID = i
		}
		for i, op := range ops {
			s := owner[op.ID]
			if op.Kind == "create" {
				s = i + 1 // the creates come first, one per subscriber
			}
			tasks[s-1].Ops = append(tasks[s-1].Ops, op)
		}
		g.sc.Tasks = tasks
	}
	return g.sc
}

// ---------------------------------------------------------------- C19

type c19Plan struct {
	op    int // which update (1-based) is faulted
	fault simnet.Fault
	gap   int64 // pause before the follow-ups
}

var c19Enum []c19Plan

func buildC19Enum() {
	const sec = int64(1_000_000_000)
	for op := 1; op <= 3; op++ {
		type tgt struct {
			peer string
			cmd  uint32
			nth  int
		}
		targets := []tgt{{"rf", 111, 0}, {"rf", 111, 1}, {"rf", 111, 2}, {"abmf", 272, 0}, {"rf", 257, 0}, {"abmf", 257, 0}}
		for _, t := range targets {
			for _, dir := range []string{"ans", "req"} {
				kinds := []struct {
					k string
					d int64
				}{{simnet.KWithhold, 1_000_000}, {simnet.KWithhold, 2 * sec}, {simnet.KWithhold, 40 * sec}, {simnet.KDelay, 6 * sec}, {simnet.KDelay, 4900 * 1_000_000},
					{simnet.KDelay, 30 * sec}, {simnet.KDrop, 0}, {simnet.KStall, 0}, {simnet.KReset, 0}}
				for _, k := range kinds {
					for _, gap := range []int64{0, 60 * sec} {
						c19Enum = append(c19Enum, c19Plan{op: op, gap: gap,
							fault: simnet.Fault{Peer: t.peer, Task: 0, Op: -1, Dir: dir, Cmd: t.cmd, Nth: t.nth, Kind: k.k, DelayNs: k.d}})
					}
				}
			}
		}
		for _, peer := range []string{"rf", "abmf"} {
			for nth := 0; nth < 2; nth++ {
				c19Enum = append(c19Enum, c19Plan{op: op, fault: simnet.Fault{Peer: peer, Task: 0, Op: -1, Dir: "dial", Nth: nth, Kind: simnet.KRefuse, DelayNs: 1_000_000}})
			}
		}
	}
}

func C19EnumSize() int {
	if c19Enum == nil {
		buildC19Enum()
	}
	return len(c19Enum)
}

// genC19TwoSessions: two sessions of one subscriber use different rating groups with different
// tariffs; an update of the first has one of its rating / account answers delayed (far below
// the client time-out), and an update of the second session arrives meanwhile.  Each operation
// must act on the answers to its own requests only.
func genC19TwoSessions(g *gen) *Scenario {
	g.sc.Cfg.Concurrent = true
	g.sc.Cfg.MaxLatNs = 2_000_000
	g.sc.Cfg.OpBudgetNs = 120_000_000_000
	supi := supiN(1)
	g.sc.Accounts = []Account{{Supi: supi, RG: 1, Quota: 2_000_000_000, UnitCost: "3"}, {Supi: supi, RG: 2, Quota: 2_000_000_000, UnitCost: "7"}}
	pro := []Op{{ID: g.id(), Kind: "create", Supi: supi, Sess: "s1", Consumer: "smf", ChargingID: 1},
		{ID: g.id(), Kind: "create", Supi: supi, Sess: "s2", Consumer: "smf", ChargingID: 2}}
	if g.r.Chance(500) {
		// both groups already hold a reservation
		pro = append(pro, Op{ID: g.id(), Kind: "update", Supi: supi, Sess: "s1", Units: []Unit{{RG: 1, Req: 400, Containers: []Container{g.online(0)}}}},
			Op{ID: g.id(), Kind: "update", Supi: supi, Sess: "s2", Units: []Unit{{RG: 2, Req: 500, Containers: []Container{g.online(0)}}}})
	}
	g.sc.Tasks = []Task{{ID: 0, Ops: pro}}
	u1 := Op{ID: g.id(), Kind: "update", Supi: supi, Sess: "s1", Role: "unfaulted", Units: []Unit{{RG: 1, Req: 1100, Containers: []Container{g.online(100)}}}}
	u2 := Op{ID: g.id(), Kind: "update", Supi: supi, Sess: "s2", Role: "unfaulted", Units: []Unit{{RG: 2, Req: 1300, Containers: []Container{g.online(100)}}}}
	g.sc.Faults = []simnet.Fault{{Peer: []string{"rf", "rf", "abmf"}[g.r.Intn(3)], Task: 1, Op: u1.ID, Dir: "ans", Cmd: 0, Nth: 1 + g.r.Intn(3), Kind: simnet.KDelay, DelayNs: g.r.Range(500, 2800) * 1_000_000}}
	g.sc.Tasks = append(g.sc.Tasks, Task{ID: 1, StartNs: 500_000_000, Ops: []Op{u1}}, Task{ID: 2, StartNs: 500_000_000 + g.r.Range(50, 900)*1_000_000, Ops: []Op{u2}})
	g.sc.Epilogue = []Op{{ID: g.id(), Kind: "update", Supi: supi, Sess: "s1", Role: "followup", Units: []Unit{{RG: 1, Req: 700, Containers: []Container{g.online(0)}}}},
		{ID: g.id(), Kind: "update", Supi: supi, Sess: "s2", Role: "followup", Units: []Unit{{RG: 2, Req: 900, Containers: []Container{g.online(0)}}}}}
	g.sc.Shape = "two sessions, two rating groups, one delayed answer"
	return g.sc
}

func GenC19(seed uint64) *Scenario {
	if c19Enum == nil {
		buildC19Enum()
	}
	g := newGen("C19", seed)
	idx := int(seed & 0xFFFFF)
	supi := supiN(1)
	cost := int64([]int{1, 2, 5}[g.r.Intn(3)])
	g.sc.Accounts = []Account{{Supi: supi, RG: 1, Quota: 2_000_000_000, UnitCost: fmt.Sprint(cost)}}
	g.sc.Cfg.MaxLatNs = []int64{300_000, 5_000_000}[g.r.Intn(2)]
	g.sc.Cfg.OpBudgetNs = 120_000_000_000
	K := 3
	var ops []Op
	ops = append(ops, Op{ID: g.id(), Kind: "create", Supi: supi, Sess: "s", Consumer: "smf", ChargingID: 1})
	upd := func(i int, role string) Op {
		// strictly increasing, pairwise distinct requested volumes: every amount on the wire is attributable
		return Op{ID: g.id(), Kind: "update", Supi: supi, Sess: "s", Role: role,
			Units: []Unit{{RG: 1, Req: int32(1000 + 137*i), Containers: []Container{{QMI: "ONLINE_CHARGING", UsePermille: []int{0, 500, 1000}[i%3]}}}}}
	}
	var faults []simnet.Fault
	var gap int64
	if idx >= len(c19Enum) && g.r.Chance(250) {
		return genC19TwoSubscribers(g)
	}
	if idx >= len(c19Enum) && g.r.Chance(250) {
		return genC19DebitMode(g)
	}
	if idx >= len(c19Enum) && g.r.Chance(200) {
		return genC19ReleaseDuringUpdate(g)
	}
	if idx >= len(c19Enum) && g.r.Chance(200) {
		return genC19AfterFinalUnit(g)
	}
	if idx >= len(c19Enum) && g.r.Chance(200) {
		return genC19TwoSessions(g)
	}
	if idx < len(c19Enum) {
		p := c19Enum[idx]
		for i := 1; i <= K; i++ {
			o := upd(i, "")
			if i == p.op {
				f := p.fault
				f.Op = o.ID
				faults = append(faults, f)
			}
			ops = append(ops, o)
		}
		gap = p.gap
		g.sc.Shape = fmt.Sprintf("enum op=%d %s %s cmd=%d nth=%d %s d=%d gap=%d", p.op, p.fault.Peer, p.fault.Dir, p.fault.Cmd, p.fault.Nth, p.fault.Kind, p.fault.DelayNs, p.gap)
	} else {
		K = 2 + g.r.Intn(5)
		nf := 1 + g.r.Intn(3)
		var ids []int
		for i := 1; i <= K; i++ {
			o := upd(i, "")
			ids = append(ids, o.ID)
			ops = append(ops, o)
			if g.r.Chance(200) {
				ops = append(ops, Op{ID: g.id(), Kind: "sleep", SleepNs: g.r.Range(1, 20_000) * 1_000_000})
			}
		}
		for i := 0; i < nf; i++ {
			p := c19Enum[g.r.Intn(len(c19Enum))]
			f := p.fault
			f.Op = ids[g.r.Intn(len(ids))]
			if f.Kind == simnet.KDelay || f.Kind == simnet.KWithhold {
				f.DelayNs = g.r.Range(1, 45_000) * 1_000_000
			}
			faults = append(faults, f)
		}
		gap = []int64{0, 1_000_000, 7_000_000_000, 60_000_000_000}[g.r.Intn(4)]
		g.sc.Shape = fmt.Sprintf("random K=%d faults=%d gap=%d", K, nf, gap)
	}
	if gap > 0 {
		ops = append(ops, Op{ID: g.id(), Kind: "sleep", SleepNs: gap})
	}
	for i := K + 1; i <= K+3; i++ {
		ops = append(ops, upd(i, "unfaulted"))
	}
	g.sc.Faults = faults
	g.sc.Tasks = []Task{{ID: 0, Ops: ops}}
	return g.sc
}

// genC19TwoSubscribers: two subscribers have requests outstanding at the same peers at the
// same time; A's answers are slow (not lost), B is served promptly and must act on its own.
func genC19TwoSubscribers(g *gen) *Scenario {
	g.sc.Cfg.Concurrent = true
	g.sc.Cfg.MaxLatNs = 2_000_000
	g.sc.Cfg.OpBudgetNs = 120_000_000_000
	a, b := supiN(1), supiN(2)
	g.sc.Accounts = []Account{{Supi: a, RG: 1, Quota: 2_000_000_000, UnitCost: "1"}, {Supi: b, RG: 1, Quota: 2_000_000_000, UnitCost: "1"}}
	pro := []Op{{ID: g.id(), Kind: "create", Supi: a, Sess: "sa", Consumer: "smf", ChargingID: 1}, {ID: g.id(), Kind: "create", Supi: b, Sess: "sb", Consumer: "smf", ChargingID: 2}}
	g.sc.Tasks = []Task{{ID: 0, Ops: pro}}
	t0 := int64(500_000_000)
	var aOps, bOps []Op
	for i := 0; i < 1+g.r.Intn(3); i++ {
		op := Op{ID: g.id(), Kind: "update", Supi: a, Sess: "sa", Units: []Unit{{RG: 1, Req: int32(100 + 13*i), Containers: []Container{g.online(0)}}}}
		// one of A's answers is slow
		g.sc.Faults = append(g.sc.Faults, simnet.Fault{Peer: []string{"rf", "abmf"}[g.r.Intn(2)], Task: 1, Op: op.ID, Dir: "ans",
			Cmd: 0, Nth: 1 + g.r.Intn(2), Kind: simnet.KDelay, DelayNs: g.r.Range(100, 3000) * 1_000_000})
		aOps = append(aOps, op)
	}
	for i := 0; i < 1+g.r.Intn(4); i++ {
		bOps = append(bOps, Op{ID: g.id(), Kind: "update", Supi: b, Sess: "sb", Role: "unfaulted",
			Units: []Unit{{RG: 1, Req: int32(7000 + 101*i), Containers: []Container{g.online([]int{0, 1000}[g.r.Intn(2)])}}}})
	}
	g.sc.Tasks = append(g.sc.Tasks, Task{ID: 1, StartNs: t0, Ops: aOps}, Task{ID: 2, StartNs: t0 + g.r.Range(0, 400_000_000), Ops: bOps})
	g.sc.Shape = fmt.Sprintf("two-subscribers a=%d b=%d", len(aOps), len(bOps))
	return g.sc
}

// genC19ReleaseDuringUpdate: an update waits for a slow (not lost) answer while the release of
// the same session arrives.  Both must act on their own answers.
func genC19ReleaseDuringUpdate(g *gen) *Scenario {
	g.sc.Cfg.Concurrent = true
	g.sc.Cfg.MaxLatNs = 2_000_000
	g.sc.Cfg.OpBudgetNs = 120_000_000_000
	supi := supiN(1)
	g.sc.Accounts = []Account{{Supi: supi, RG: 1, Quota: 2_000_000_000, UnitCost: "1"}}
	pro := []Op{{ID: g.id(), Kind: "create", Supi: supi, Sess: "s", Consumer: "smf", ChargingID: 1},
		{ID: g.id(), Kind: "update", Supi: supi, Sess: "s", Units: []Unit{{RG: 1, Req: 1000, Containers: []Container{g.online(0)}}}}}
	g.sc.Tasks = []Task{{ID: 0, Ops: pro}}
	upd := Op{ID: g.id(), Kind: "update", Supi: supi, Sess: "s", Role: "unfaulted", Units: []Unit{{RG: 1, Req: 600, Containers: []Container{g.online(100)}}}}
	g.sc.Faults = []simnet.Fault{{Peer: []string{"rf", "abmf"}[g.r.Intn(2)], Task: 1, Op: upd.ID, Dir: "ans", Cmd: 0, Nth: 1 + g.r.Intn(2), Kind: simnet.KDelay, DelayNs: g.r.Range(500, 2800) * 1_000_000}}
	rel := Op{ID: g.id(), Kind: "release", Supi: supi, Sess: "s", Final: true, Units: []Unit{{RG: 1, Req: 0, Containers: []Container{g.online(500)}}}}
	g.sc.Tasks = append(g.sc.Tasks, Task{ID: 1, StartNs: 500_000_000, Ops: []Op{upd}}, Task{ID: 2, StartNs: 500_000_000 + g.r.Range(50, 400)*1_000_000, Ops: []Op{rel}})
	g.sc.Shape = "release during pending update"
	return g.sc
}

// genC19AfterFinalUnit: subscriber A runs its account dry (its answers carry a final-unit
// indication); then subscriber B, with ample balance, must not see any of it.
func genC19AfterFinalUnit(g *gen) *Scenario {
	g.sc.Cfg.MaxLatNs = 2_000_000
	a, b := supiN(1), supiN(2)
	g.sc.Accounts = []Account{{Supi: a, RG: 1, Quota: g.r.Range(0, 800), UnitCost: "1"}, {Supi: b, RG: 1, Quota: 2_000_000_000, UnitCost: "1"},
		{Supi: b, RG: 2, Quota: 2_000_000_000, UnitCost: "1"}}
	ops := []Op{{ID: g.id(), Kind: "create", Supi: a, Sess: "sa", Consumer: "smf", ChargingID: 1}, {ID: g.id(), Kind: "create", Supi: b, Sess: "sb", Consumer: "smf", ChargingID: 2},
		{ID: g.id(), Kind: "update", Supi: a, Sess: "sa", Units: []Unit{{RG: 1, Req: 1000, Containers: []Container{g.online(0)}}}}}
	for i := 0; i < 2+g.r.Intn(3); i++ {
		ops = append(ops, Op{ID: g.id(), Kind: "update", Supi: b, Sess: "sb", Role: "unfaulted",
			Units: []Unit{{RG: int32(1 + i%2), Req: int32(1000 + 41*i), Containers: []Container{g.online([]int{0, 1000}[i%2])}}}})
	}
	g.sc.Shape = "after final unit of another subscriber"
	g.sc.Tasks = []Task{{ID: 0, Ops: ops}}
	return g.sc
}

// genC19DebitMode: the faulted request is a final report (debit-mode settlement); follow-ups
// use another rating group of the same subscriber.
func genC19DebitMode(g *gen) *Scenario {
	supi := supiN(1)
	g.sc.Cfg.MaxLatNs = 2_000_000
	g.sc.Cfg.OpBudgetNs = 120_000_000_000
	g.sc.Accounts = []Account{{Supi: supi, RG: 1, Quota: 2_000_000_000, UnitCost: "1"}, {Supi: supi, RG: 2, Quota: 2_000_000_000, UnitCost: "1"}}
	ops := []Op{{ID: g.id(), Kind: "create", Supi: supi, Sess: "s", Consumer: "smf", ChargingID: 1},
		{ID: g.id(), Kind: "update", Supi: supi, Sess: "s", Units: []Unit{{RG: 1, Req: 1000, Containers: []Container{g.online(0)}}}}}
	fin := Op{ID: g.id(), Kind: "update", Supi: supi, Sess: "s", Final: true, Units: []Unit{{RG: 1, Req: 1000, Containers: []Container{g.online([]int{300, 1000}[g.r.Intn(2)])}}}}
	ops = append(ops, fin)
	kind := []string{simnet.KDelay, simnet.KDelay, simnet.KWithhold, simnet.KDrop}[g.r.Intn(4)]
	// addressed by position on the wire (the settlement is the second credit-control exchange of
	// the run), not by the issuing op: whichever task or helper sends it, it is hit
	g.sc.Faults = []simnet.Fault{{Peer: "abmf", Task: -1, Op: -1, Dir: []string{"ans", "req"}[g.r.Intn(2)], Cmd: 272, Nth: 1, Kind: kind, DelayNs: g.r.Range(200, 9000) * 1_000_000}}
	if g.r.Chance(500) {
		ops = append(ops, Op{ID: g.id(), Kind: "sleep", SleepNs: g.r.Range(1, 3000) * 1_000_000})
	}
	for i := 0; i < 3; i++ {
		ops = append(ops, Op{ID: g.id(), Kind: "update", Supi: supi, Sess: "s", Role: "unfaulted",
			Units: []Unit{{RG: 2, Req: int32(500 + 37*i), Containers: []Container{g.online([]int{0, 1000}[i%2])}}}})
	}
	g.sc.Shape = "debit-mode settlement " + kind
	g.sc.Tasks = []Task{{ID: 0, Ops: ops}}
	return g.sc
}

// ---------------------------------------------------------------- C09

func GenC09(seed uint64) *Scenario {
	g := newGen("C09", seed)
	if g.r.Chance(80) {
		return genNotifyCallback(g)
	}
	g.sc.Cfg.Concurrent = true
	g.sc.Cfg.MaxLatNs = []int64{300_000, 2_000_000, 10_000_000}[g.r.Intn(3)]
	g.sc.Cfg.YieldPermille = []int{0, 10, 50, 150, 300}[g.r.Intn(5)]
	g.sc.Cfg.YieldMaxNs = []int64{1000, 100_000, 5_000_000, 20_000_000}[g.r.Intn(4)]
	g.sc.Cfg.PollMinNs = []int64{1000, 20_000}[g.r.Intn(2)]
	g.sc.Cfg.PollMaxNs = []int64{50_000, 400_000, 5_000_000}[g.r.Intn(3)]
	pattern := g.r.Intn(4)
	nTasks := 2 + g.r.Intn(7)
	if g.r.Chance(150) {
		nTasks = 9 + g.r.Intn(8)
	}
	window := []int64{0, 10_000, 1_000_000, 30_000_000, 200_000_000}[g.r.Intn(5)]
	g.sc.Shape = fmt.Sprintf("pattern=%d tasks=%d window=%d yield=%d/%d", pattern, nTasks, window, g.sc.Cfg.YieldPermille, g.sc.Cfg.YieldMaxNs)
	nSub := 1
	if pattern >= 2 {
		nSub = 1 + g.r.Intn(3)
	}
	newSupiSpread := g.r.Intn(2) // pattern 1: 0 = every task creates for the same new SUPI, 1 = three new SUPIs
	if pattern == 1 && newSupiSpread == 1 {
		nSub = 3
	}
	for s := 1; s <= nSub; s++ {
		for rg := int32(1); rg <= 2; rg++ {
			g.sc.Accounts = append(g.sc.Accounts, Account{Supi: supiN(s), RG: rg, Quota: g.r.Range(100_000, 50_000_000), UnitCost: g.pickCost()})
		}
	}
	// prologue task: sessions that the concurrent tasks will use are created first
	var pro []Op
	var sess []*sessState
	if pattern != 1 {
		for s := 1; s <= nSub; s++ {
			for k := 0; k < 2; k++ {
				st := &sessState{name: fmt.Sprintf("s%d_%d", s, k), supi: supiN(s), rgs: []int32{1, 2}}
				sess = append(sess, st)
				pro = append(pro, Op{ID: g.id(), Kind: "create", Supi: st.supi, Sess: st.name, Consumer: "smf" + st.name, ChargingID: int32(s*10 + k),
					NotifyURI: "http://smf.sim/notify/" + st.supi})
			}
		}
	}
	proEnd := int64(len(pro)+1) * 2_000_000
	g.sc.Tasks = append(g.sc.Tasks, Task{ID: 0, Ops: pro})
	released := map[string]bool{}
	var dupRelease []Op // a retransmitted / duplicate release of a session, sent by another task
	for t := 1; t <= nTasks; t++ {
		var ops []Op
		nOps := 1 + g.r.Intn(3)
		for k := 0; k < nOps; k++ {
			switch pattern {
			case 1: // creates for not-yet-known SUPIs (the same one, or several), then use of the session
				name := fmt.Sprintf("n%d_%d", t, k)
				cs := supiN(1 + (t*newSupiSpread)%3)
				ops = append(ops, Op{ID: g.id(), Kind: "create", Supi: cs, Sess: name, Consumer: fmt.Sprintf("smf%d", t), ChargingID: int32(t),
					NotifyURI: "http://smf.sim/notify/" + cs})
				if g.r.Chance(600) {
					ops = append(ops, Op{ID: g.id(), Kind: "update", Supi: cs, Sess: name,
						Units: []Unit{{RG: 1, Req: 100, Containers: []Container{g.online(0), g.offline()}}}})
				}
				if g.r.Chance(150) {
					ops = append(ops, Op{ID: g.id(), Kind: "create", OneTime: true, Supi: cs, Sess: "ev" + name, Consumer: fmt.Sprintf("smf%d", t), ChargingID: 7})
				}
				if g.r.Chance(120) {
					released[name] = true
					ops = append(ops, Op{ID: g.id(), Kind: "release", Supi: cs, Sess: name, Final: true,
						Units: []Unit{{RG: 1, Req: 0, Containers: []Container{g.online(1000)}}}})
				}
			default:
				st := sess[g.r.Intn(len(sess))]
				if pattern == 0 {
					st = sess[g.r.Intn(2)] // same subscriber, its two sessions
				}
				r := g.r.Intn(100)
				switch {
				case r < 15:
					ops = append(ops, Op{ID: g.id(), Kind: "recharge", Supi: st.supi, RG: 1 + int32(g.r.Intn(2))}) // notification only: a DB top-up racing with the account server is the web console's business
				case r < 22 && !released[st.name] && k == nOps-1:
					released[st.name] = true
					ops = append(ops, Op{ID: g.id(), Kind: "release", Supi: st.supi, Sess: st.name, Final: true,
						Units: []Unit{{RG: 1, Req: 0, Containers: []Container{g.online(1000)}}}})
					if g.r.Chance(300) {
						dupRelease = append(dupRelease, Op{Kind: "release", Supi: st.supi, Sess: st.name, Final: true, Role: "may-reject"})
					}
				case released[st.name]:
					ops = append(ops, Op{ID: g.id(), Kind: "recharge", Supi: st.supi, RG: 1, TopUp: 0})
				default:
					rg := int32(1)
					if pattern == 3 && g.r.Chance(400) {
						rg = 2
					}
					u := Unit{RG: rg, Req: int32(g.r.Range(10, 2000)), Containers: []Container{g.online([]int{0, 500, 1000}[g.r.Intn(3)])}}
					if g.r.Chance(300) {
						u.Containers = append(u.Containers, g.offline())
					}
					op := Op{ID: g.id(), Kind: "update", Supi: st.supi, Sess: st.name, Units: []Unit{u}, Final: g.r.Chance(80)}
					if !op.Final && g.r.Chance(200) {
						op.Triggers = []Trig{partialTriggers[g.r.Intn(3)]} // closes a partial record
					}
					ops = append(ops, op)
				}
			}
		}
		g.sc.Tasks = append(g.sc.Tasks, Task{ID: t, StartNs: proEnd + g.r.Range(0, window), Ops: ops})
	}
	// cgf.enable: true — every create / update also transfers the subscriber's CDR file to the
	// billing domain over one cached FTP control connection shared by all requests; the server
	// closes idle control connections and restarts now and then (definite errors only: the
	// statement quantifies over schedules, not over a peer that goes silent)
	if g.r.Chance(250) {
		g.sc.Cfg.Cgf = true
		g.sc.Cfg.CgfIdleNs = []int64{0, 0, 3_000_000, 40_000_000, 2_000_000_000}[g.r.Intn(5)]
		g.sc.Shape += fmt.Sprintf(" cgf idle=%d", g.sc.Cfg.CgfIdleNs)
		nRestart := g.r.Intn(3)
		for i := 0; i < nRestart; i++ {
			g.sc.Tasks = append(g.sc.Tasks, Task{ID: 100 + i, StartNs: g.r.Range(0, proEnd+window+20_000_000),
				Ops: []Op{{ID: g.id(), Kind: "ftprestart"}}})
		}
		if nRestart > 0 {
			g.sc.Shape += fmt.Sprintf(" restarts=%d", nRestart)
		}
	}
	for i, d := range dupRelease {
		d.ID = g.id()
		g.sc.Tasks = append(g.sc.Tasks, Task{ID: nTasks + 1 + i, StartNs: proEnd + g.r.Range(0, window+1), Ops: []Op{d}})
	}
	// a release op must be the only user of its session afterwards: drop later ops on released sessions in other tasks
	// (a request for a released session is a rejected request, which C12 covers; here every op is meant to be accepted)
	relAt := map[string]int{}
	for ti, t := range g.sc.Tasks {
		for _, o := range t.Ops {
			if o.Kind == "release" {
				relAt[o.Sess] = ti
			}
		}
	}
	keepRacers := g.r.Chance(500)
	for ti := range g.sc.Tasks {
		var keep []Op
		for _, o := range g.sc.Tasks[ti].Ops {
			if rt, ok := relAt[o.Sess]; ok && (o.Kind == "update" || o.Kind == "release") && rt != ti {
				if !keepRacers {
					continue
				}
				o.Role = "may-reject" // races with the release of its session: 200 and 404 are both fine
				o.Final = false
			}
			keep = append(keep, o)
		}
		g.sc.Tasks[ti].Ops = keep
	}
	// epilogue: every session whose create was acknowledged and that was not released takes one more update and a release
	add := func(supi, name string) {
		if released[name] {
			return
		}
		g.sc.Epilogue = append(g.sc.Epilogue,
			Op{ID: g.id(), Kind: "update", Supi: supi, Sess: name, Role: "epilogue", Units: []Unit{{RG: 1, Req: 50, Containers: []Container{g.online(0)}}}},
			Op{ID: g.id(), Kind: "release", Supi: supi, Sess: name, Role: "epilogue", Final: true, Units: []Unit{{RG: 1, Req: 0, Containers: []Container{g.online(1000)}}}})
	}
	for _, t := range g.sc.Tasks {
		for _, o := range t.Ops {
			if o.Kind == "create" && !o.OneTime {
				add(o.Supi, o.Sess)
			}
		}
	}
	return g.sc
}
