package verifsim

import (
	"encoding/binary"
	"fmt"
)

// This file contains readers written from the specifications (TS 32.297 §6.1 file
// format, X.690 BER, TS 32.298 CHF record tags) that share no code with the CHF's
// encoders in cdr/asn and cdr/cdrFile.

// ---------------------------------------------------------------- BER

type tlv struct {
	Class       int // 0 universal, 1 application, 2 context, 3 private
	Constructed bool
	Tag         int
	Content     []byte
	Children    []*tlv
	Total       int // total encoded size (identifier + length + content)
}

// parseTLV parses exactly one definite-length element at the start of b and, for
// constructed elements, all of its children (which must fill the content exactly).
func parseTLV(b []byte, depth int) (*tlv, error) {
	if depth > 64 {
		return nil, fmt.Errorf("nesting too deep")
	}
	if len(b) < 2 {
		return nil, fmt.Errorf("truncated element (%d bytes)", len(b))
	}
	t := &tlv{Class: int(b[0] >> 6), Constructed: b[0]&0x20 != 0, Tag: int(b[0] & 0x1f)}
	i := 1
	if t.Tag == 0x1f {
		t.Tag = 0
		n := 0
		for {
			if i >= len(b) {
				return nil, fmt.Errorf("truncated high tag number")
			}
			c := b[i]
			i++
			n++
			if n == 1 && c == 0x80 {
				return nil, fmt.Errorf("non-minimal high tag number")
			}
			if n > 4 {
				return nil, fmt.Errorf("tag number too large")
			}
			t.Tag = t.Tag<<7 | int(c&0x7f)
			if c&0x80 == 0 {
				break
			}
		}
		if t.Tag < 31 {
			return nil, fmt.Errorf("high tag form used for tag %d", t.Tag)
		}
	}
	if i >= len(b) {
		return nil, fmt.Errorf("truncated length")
	}
	l := 0
	lb := b[i]
	i++
	switch {
	case lb < 0x80:
		l = int(lb)
	case lb == 0x80:
		return nil, fmt.Errorf("indefinite length")
	default:
		n := int(lb & 0x7f)
		if n > 4 || i+n > len(b) {
			return nil, fmt.Errorf("bad long-form length (%d octets)", n)
		}
		for k := 0; k < n; k++ {
			l = l<<8 | int(b[i+k])
		}
		i += n
	}
	if i+l > len(b) {
		return nil, fmt.Errorf("content length %d runs past the end (%d available)", l, len(b)-i)
	}
	t.Content = b[i : i+l]
	t.Total = i + l
	if t.Constructed {
		rest := t.Content
		for len(rest) > 0 {
			c, err := parseTLV(rest, depth+1)
			if err != nil {
				return nil, fmt.Errorf("in [%d]: %v", t.Tag, err)
			}
			t.Children = append(t.Children, c)
			rest = rest[c.Total:]
		}
	}
	return t, nil
}

func (t *tlv) child(tag int) *tlv {
	for _, c := range t.Children {
		if c.Class == 2 && c.Tag == tag {
			return c
		}
	}
	return nil
}

// leafOf descends through wrappers to the first primitive element.
func leafOf(t *tlv) *tlv {
	for t != nil && t.Constructed {
		if len(t.Children) == 0 {
			return nil
		}
		t = t.Children[0]
	}
	return t
}

func berInt(b []byte) int64 {
	if len(b) == 0 {
		return 0
	}
	var v int64
	if b[0]&0x80 != 0 {
		v = -1
	}
	for _, x := range b {
		v = v<<8 | int64(x)
	}
	return v
}

// ---------------------------------------------------------------- CHF record

type cdrContainer struct {
	RG     int64
	Seq    int64
	Vol    int64
	Up     int64
	Down   int64
	SSU    int64
	HasSeq bool
}

type cdrRecord struct {
	SubscriberType int64
	SubscriberData string
	HasSubscriber  bool
	ConsumerName   string
	HasConsumer    bool
	ConsumerV4     string // text of the networkFunctionIPv4Address alternative, "" if absent
	ConsumerV4Alt  int    // CHOICE alternative found in that field (2 = iPTextV4Address)
	ConsumerV6     string
	ConsumerV6Alt  int // 3 = iPTextV6Address
	ConsumerFqdn   string
	Functionality  int64
	OpeningTime    []byte
	Cause          int64
	HasCause       bool
	LocalSeq       int64
	RecordSeq      int64
	HasRecordSeq   bool
	SessionID      string
	HasSession     bool
	ChargingID     int64
	HasChargingID  bool
	Containers     []cdrContainer
	Usages         int // number of MultipleUnitUsage entries
}

// decodeCHFRecord extracts the fields the oracles need from one BER payload.
func decodeCHFRecord(payload []byte) (*cdrRecord, error) {
	top, err := parseTLV(payload, 0)
	if err != nil {
		return nil, err
	}
	if top.Total != len(payload) {
		return nil, fmt.Errorf("payload has %d trailing bytes after the record", len(payload)-top.Total)
	}
	if top.Class != 2 || top.Tag != 200 || !top.Constructed {
		return nil, fmt.Errorf("payload is not a CHF record ([200] constructed): class=%d tag=%d", top.Class, top.Tag)
	}
	r := &cdrRecord{}
	if s := top.child(2); s != nil {
		r.HasSubscriber = true
		if c := s.child(0); c != nil {
			r.SubscriberType = berInt(c.Content)
		}
		if c := s.child(1); c != nil {
			r.SubscriberData = string(c.Content)
		}
	}
	if s := top.child(3); s != nil {
		if c := s.child(0); c != nil {
			r.Functionality = berInt(c.Content)
		}
		if c := s.child(1); c != nil {
			r.ConsumerName, r.HasConsumer = string(c.Content), true
		}
		if c := s.child(2); c != nil {
			if l := leafOf(c); l != nil {
				r.ConsumerV4, r.ConsumerV4Alt = string(l.Content), l.Tag
			}
		}
		if c := s.child(4); c != nil {
			if l := leafOf(c); l != nil {
				r.ConsumerV6, r.ConsumerV6Alt = string(l.Content), l.Tag
			}
		}
		if c := s.child(5); c != nil {
			if l := leafOf(c); l != nil {
				r.ConsumerFqdn = string(l.Content)
			}
		}
	}
	if s := top.child(5); s != nil {
		for _, mu := range s.Children {
			r.Usages++
			var rg int64
			if c := mu.child(0); c != nil {
				rg = berInt(c.Content)
			}
			if cs := mu.child(1); cs != nil {
				for _, cc := range cs.Children {
					e := cdrContainer{RG: rg}
					if c := cc.child(4); c != nil {
						e.Vol = berInt(c.Content)
					}
					if c := cc.child(5); c != nil {
						e.Up = berInt(c.Content)
					}
					if c := cc.child(6); c != nil {
						e.Down = berInt(c.Content)
					}
					if c := cc.child(7); c != nil {
						e.SSU = berInt(c.Content)
					}
					if c := cc.child(9); c != nil {
						e.Seq, e.HasSeq = berInt(c.Content), true
					}
					r.Containers = append(r.Containers, e)
				}
			}
		}
	}
	if c := top.child(6); c != nil {
		r.OpeningTime = c.Content
	}
	if c := top.child(8); c != nil {
		r.RecordSeq, r.HasRecordSeq = berInt(c.Content), true
	}
	if c := top.child(9); c != nil {
		r.Cause, r.HasCause = berInt(c.Content), true
	}
	if c := top.child(11); c != nil {
		r.LocalSeq = berInt(c.Content)
	}
	if c := top.child(16); c != nil {
		r.SessionID, r.HasSession = string(c.Content), true
	}
	if c := top.child(27); c != nil {
		r.ChargingID, r.HasChargingID = berInt(c.Content), true
	}
	return r, nil
}

// ---------------------------------------------------------------- TS 32.297 file

type cdrFileImage struct {
	FileLength   uint32
	HeaderLength uint32
	NumCdrs      uint32
	Payloads     [][]byte
	// BadRecord is the complete BER element (as far as the file holds it) of the first
	// record whose header length disagrees with its payload; nil if none.
	BadRecord []byte
}

// readCdrFile checks a file image against TS 32.297 §6.1 and returns its payloads.
// Every inconsistency is returned as an error string naming the field.
func readCdrFile(data []byte) (*cdrFileImage, []string) {
	var errs []string
	bad := func(f string, a ...interface{}) { errs = append(errs, fmt.Sprintf(f, a...)) }
	if len(data) < 52 {
		bad("file-too-short: %d bytes, the fixed header needs 52", len(data))
		return nil, errs
	}
	img := &cdrFileImage{
		FileLength:   binary.BigEndian.Uint32(data[0:4]),
		HeaderLength: binary.BigEndian.Uint32(data[4:8]),
		NumCdrs:      binary.BigEndian.Uint32(data[18:22]),
	}
	highRel := data[8] >> 5
	lowRel := data[9] >> 5
	// 8: high rel/ver, 9: low rel/ver, 10..13 open ts, 14..17 last append ts, 18..21 number of CDRs,
	// 22..25 file sequence number, 26 closure trigger, 27..46 node ip, 47 lost cdr indicator,
	// 48..49 length of routeing filter, filter, 2 octets length of private extension, extension,
	// then release extension octets.
	off := 48
	rfLen := int(binary.BigEndian.Uint16(data[off : off+2]))
	off += 2 + rfLen
	if off+2 > len(data) {
		bad("header: routeing filter length %d runs past the end", rfLen)
		return img, errs
	}
	peLen := int(binary.BigEndian.Uint16(data[off : off+2]))
	off += 2 + peLen
	if highRel == 7 {
		off++
	}
	if lowRel == 7 {
		off++
	}
	if off > len(data) {
		bad("header: private extension length %d runs past the end", peLen)
		return img, errs
	}
	if int(img.HeaderLength) != off {
		bad("header-length: field says %d, real header is %d bytes", img.HeaderLength, off)
	}
	if int(img.FileLength) != len(data) {
		bad("file-length: field says %d, file is %d bytes", img.FileLength, len(data))
	}
	pos := off
	n := 0
	for pos < len(data) {
		if pos+4 > len(data) {
			bad("record %d: truncated record header at offset %d", n, pos)
			break
		}
		cl := int(binary.BigEndian.Uint16(data[pos : pos+2]))
		rel := data[pos+2] >> 5
		hdr := 4
		if rel == 7 {
			hdr = 5
		}
		if pos+hdr+cl > len(data) {
			bad("record %d: CdrLength %d runs past the end of the file (%d bytes left)", n, cl, len(data)-pos-hdr)
			break
		}
		payload := data[pos+hdr : pos+hdr+cl]
		t, err := parseTLV(payload, 0)
		if (err != nil || t.Total != cl) && img.BadRecord == nil {
			if full, ferr := parseTLV(data[pos+hdr:], 0); ferr == nil {
				img.BadRecord = data[pos+hdr : pos+hdr+full.Total]
			}
		}
		switch {
		case err != nil:
			bad("record %d: payload of CdrLength %d is not a complete BER element: %v", n, cl, err)
		case t.Total != cl:
			bad("record %d: CdrLength %d but the BER element occupies %d bytes", n, cl, t.Total)
		case t.Class != 2 || t.Tag != 200 || !t.Constructed:
			bad("record %d: payload is not a CHF record (class %d tag %d)", n, t.Class, t.Tag)
		}
		img.Payloads = append(img.Payloads, payload)
		pos += hdr + cl
		n++
		if err != nil {
			break // offsets beyond a broken record are meaningless
		}
	}
	if uint32(n) != img.NumCdrs {
		bad("number-of-cdrs: field says %d, %d records present", img.NumCdrs, n)
	}
	return img, errs
}

// containerSizes returns, for a CHF record, the encoded size of every usage container
// keyed by its local sequence number.
func containerSizes(record []byte) map[int64]int {
	out := map[int64]int{}
	top, err := parseTLV(record, 0)
	if err != nil {
		return out
	}
	if l := top.child(5); l != nil {
		for _, mu := range l.Children {
			if cs := mu.child(1); cs != nil {
				for _, cc := range cs.Children {
					if c := cc.child(9); c != nil {
						out[berInt(c.Content)] += cc.Total
					}
				}
			}
		}
	}
	return out
}

// bcdTime renders a time as TS 32.298 TimeStamp: YYMMDDhhmmss (BCD) S hh mm (BCD).
func bcdTime(year, month, day, hour, min, sec, offsetSec int) []byte {
	bcd := func(v int) byte { return byte(v/10)<<4 | byte(v%10) }
	sign := byte('+')
	if offsetSec < 0 {
		sign = '-'
		offsetSec = -offsetSec
	}
	return []byte{bcd(year % 100), bcd(month), bcd(day), bcd(hour), bcd(min), bcd(sec), sign,
		bcd(offsetSec / 3600), bcd(offsetSec % 3600 / 60)}
}
