package verifsim

import (
	"encoding/json"

	"github.com/free5gc/chf/internal/verifsim/simnet"
)

// RunCfg are the per-run knobs (all drawn by the generator, all part of the replay file).
type RunCfg struct {
	TZOffsetSec    int     `json:"tz_offset_sec"`
	MinLatNs       int64   `json:"min_lat_ns"`
	MaxLatNs       int64   `json:"max_lat_ns"`
	YieldPermille  int     `json:"yield_permille"`
	YieldMaxNs     int64   `json:"yield_max_ns"`
	PollMinNs      int64   `json:"poll_min_ns"`
	PollMaxNs      int64   `json:"poll_max_ns"`
	SinkMode       string  `json:"sink_mode,omitempty"`
	SinkDelayNs    int64   `json:"sink_delay_ns,omitempty"`
	SinkCallback   *Op     `json:"sink_callback,omitempty"` // request the SMF sends while it handles a notification, before answering it
	VolumeLimit    int32   `json:"volume_limit,omitempty"`
	VolumeLimitPDU int32   `json:"volume_limit_pdu,omitempty"`
	QuotaValidity  int32   `json:"quota_validity,omitempty"`
	ThresholdRate  float32 `json:"threshold_rate,omitempty"`
	OpBudgetNs     int64   `json:"op_budget_ns,omitempty"`
	DBDelayMaxNs   int64   `json:"db_delay_max_ns,omitempty"` // every stub-DB call takes a seed-derived simulated time up to this
	SettleNs       int64   `json:"settle_ns,omitempty"`
	Snapshots      bool    `json:"snapshots,omitempty"` // full state snapshot around every op (sequential runs only)
	Concurrent     bool    `json:"concurrent,omitempty"`
	CounterStart   uint64  `json:"counter_start,omitempty"` // initial value of the CHF-wide local record sequence number (a long-running process)
	WholeSystem    bool    `json:"whole_system,omitempty"`  // C08: run the CHF in front of the rating server (tariff agreement end to end)
	MemRecords     bool    `json:"mem_records,omitempty"`   // read the in-memory records after every op (sequential runs only)
	Cgf            bool    `json:"cgf,omitempty"`           // cgf.enable: true — every create/update transfers the CDR file to the billing domain's FTP server
	CgfIdleNs      int64   `json:"cgf_idle_ns,omitempty"`   // the FTP server closes a control connection idle for this long (0 = never)
}

type Account struct {
	Supi       string `json:"supi"`
	RG         int32  `json:"rg"`
	Quota      int64  `json:"quota"`
	UnitCost   string `json:"unit_cost"`
	NoQuota    bool   `json:"no_quota,omitempty"`
	NoUnitCost bool   `json:"no_unit_cost,omitempty"`
}

// Container is one used-unit container, described by policy.
type Container struct {
	QMI         string `json:"qmi"`              // ONLINE_CHARGING | OFFLINE_CHARGING | QUOTA_MANAGEMENT_SUSPENDED | ""
	UsePermille int    `json:"use_permille"`     // used volume = permille of the last grant for (session, rg); -1: Vol is literal
	Vol         int32  `json:"vol,omitempty"`    // literal total volume when UsePermille < 0
	SSU         int32  `json:"ssu,omitempty"`    // service specific units
	NoSeq       bool   `json:"no_seq,omitempty"` // do not assign a unique local sequence number
}

type Unit struct {
	RG         int32       `json:"rg"`
	Req        int32       `json:"req"`                  // requested total volume
	NoReq      bool        `json:"no_req,omitempty"`     // omit requestedUnit altogether
	Containers []Container `json:"containers,omitempty"` //
	UPFID      string      `json:"upfid,omitempty"`
}

// Op is one step of a task.
type Op struct {
	ID           int    `json:"id"`
	Kind         string `json:"kind"` // create | update | release | recharge | raw | sleep | dbset
	Supi         string `json:"supi,omitempty"`
	Sess         string `json:"sess,omitempty"`     // logical session name
	RefMode      string `json:"ref_mode,omitempty"` // "" bound ref | unknown | foreign:<sess> | literal:<text>
	Corrupt      string `json:"corrupt,omitempty"`  // the body is valid JSON but one member has the wrong JSON type: isn-string | ts-number | muu-object
	Consumer     string `json:"consumer,omitempty"`
	ChargingID   int32  `json:"charging_id,omitempty"`
	Units        []Unit `json:"units,omitempty"`
	Final        bool   `json:"final,omitempty"`
	Triggers     []Trig `json:"triggers,omitempty"`
	RG           int32  `json:"rg,omitempty"`     // recharge
	TopUp        int64  `json:"top_up,omitempty"` // recharge: amount credited in the DB before the PUT
	NotifyURI    string `json:"notify_uri,omitempty"`
	ConsumerV4   string `json:"consumer_v4,omitempty"`   // nfConsumerIdentification.nFIPv4Address (create)
	ConsumerV6   string `json:"consumer_v6,omitempty"`   // nFIPv6Address
	ConsumerFqdn string `json:"consumer_fqdn,omitempty"` // nFFqdn
	OneTime      bool   `json:"one_time,omitempty"`
	NoPDU        bool   `json:"no_pdu,omitempty"`
	// raw request (C11 probes)
	Method string          `json:"method,omitempty"`
	Path   string          `json:"path,omitempty"`
	Body   json.RawMessage `json:"body,omitempty"`
	// sleep
	SleepNs int64 `json:"sleep_ns,omitempty"`
	// role of the op for the oracles
	Role string  `json:"role,omitempty"` // "" | probe | followup | epilogue | unfaulted
	ISN  int32   `json:"isn,omitempty"`  // invocation sequence number (0: harness assigns)
	D    *DiamOp `json:"d,omitempty"`    // Diameter request (C07 / C08 engines)
}

type Trig struct {
	Type     string `json:"type"`
	Category string `json:"category"`
}

type Task struct {
	ID      int   `json:"id"`
	StartNs int64 `json:"start_ns"`
	Ops     []Op  `json:"ops"`
}

// Scenario is the complete, explicit description of one simulated run.  A replay file
// is exactly this structure.
type Scenario struct {
	Prop     string         `json:"prop"`
	Seed     uint64         `json:"seed"`
	Shape    string         `json:"shape,omitempty"` // generator family, informational
	Cfg      RunCfg         `json:"cfg"`
	Accounts []Account      `json:"accounts"`
	Tasks    []Task         `json:"tasks"`
	Epilogue []Op           `json:"epilogue,omitempty"` // run sequentially after all tasks finished
	Faults   []simnet.Fault `json:"faults,omitempty"`
}

// Violation is one oracle verdict.
type Violation struct {
	Prop   string `json:"prop"`
	Class  string `json:"class"`  // coarse kind, part of the signature
	Sig    string `json:"sig"`    // distinguishing parameters, part of the signature
	Detail string `json:"detail"` // human-readable, not part of the signature
	OpID   int    `json:"op_id"`
}

func (v Violation) Key() string { return v.Prop + "|" + v.Class + "|" + v.Sig }
