package verifsim

import (
	"fmt"
	"sort"
	"strings"

	"github.com/free5gc/chf/internal/verifsim/rt"
)

// RunStats is the per-run summary written by the worker (feeds the evidence file).
type RunStats struct {
	Ops        map[string]int `json:"ops"`
	Statuses   map[string]int `json:"statuses"`
	Probes     map[string]int `json:"probes"`
	Faults     map[string]int `json:"faults"`
	SimNs      int64          `json:"sim_ns"`
	Msgs       int            `json:"msgs"`
	Writes     int            `json:"writes"`
	ShapeHash  string         `json:"shape_hash"`
	NonTrivial bool           `json:"non_trivial"`
	Interleave string         `json:"interleave,omitempty"`
}

func Stats(h *History) RunStats {
	s := RunStats{Ops: map[string]int{}, Statuses: map[string]int{}, Probes: map[string]int{}, Faults: map[string]int{}}
	var shape []string
	all := append(append([]*OpResult(nil), h.Ops...), h.Epilogue...)
	for _, o := range all {
		s.Ops[o.Op.Kind]++
		if o.Op.Kind == "sleep" || o.Op.Kind == "dbset" {
			continue
		}
		if o.Diam != nil {
			d := o.Op.D
			k := fmt.Sprintf("%s:a%d:t%d:s%d:ans%v:fui%v:g%v", o.Op.Kind, d.Action, d.ReqType, d.RateSubType, o.Diam.Answered, o.Diam.F.FUI, o.Diam.F.Granted > 0 || o.Diam.F.Allowed > 0 || o.Diam.F.Price > 0)
			shape = append(shape, k)
			if o.Diam.Answered {
				s.Statuses["answered"]++
				s.NonTrivial = true
			} else {
				s.Statuses["no-answer"]++
			}
			if o.Diam.PreBal != o.Diam.PostBal {
				s.Probes["balance_changed"]++
			}
			if o.Diam.PostBal < 0 {
				s.Probes["negative_balance"]++
			}
			continue
		}
		if !o.Done {
			s.Statuses["no-return"]++
		} else {
			s.Statuses[fmt.Sprint(o.Status)]++
		}
		k := fmt.Sprintf("%s:%d:%d", o.Op.Kind, o.Status, len(o.Reported))
		for _, u := range o.Units {
			k += fmt.Sprintf("/g%v%v", u.HasGrant && u.Granted > 0, u.FUI)
			if u.FUI {
				s.Probes["final_unit_indication"]++
			}
			if u.HasGrant && u.Granted == 0 {
				s.Probes["zero_grant"]++
			}
		}
		if o.Op.RefMode != "" {
			k += ":" + strings.SplitN(o.Op.RefMode, ":", 2)[0]
		}
		if o.Faulted {
			k += ":faulted"
			s.Probes["op_faulted"]++
		}
		if o.Done && o.EndNs-o.StartNs >= 5_000_000_000 {
			s.Probes["client_timeout_elapsed"]++
		}
		if is4xx(o.Status) {
			s.Probes["rejected_4xx"]++
			if o.Op.Corrupt != "" {
				s.Probes["wrongly_typed_body_rejected"]++
			}
		}
		if is5xx(o.Status) {
			s.Probes["answered_5xx"]++
		}
		shape = append(shape, k)
		if o.PostWrites > o.PreWrites || len(o.Units) > 0 || o.PostNotifs > o.PreNotifs {
			s.NonTrivial = true
		}
		for i := range o.Post {
			if i < len(o.Pre) && (o.Post[i].Quota != o.Pre[i].Quota || o.Post[i].Reserved != o.Pre[i].Reserved) {
				s.NonTrivial = true
				if o.Post[i].Reserved < 0 {
					s.Probes["negative_reservation"]++
				}
			}
		}
	}
	for _, m := range h.Msgs {
		if m.Request && m.Cmd == 111 && m.F.ReqSubType == 2 {
			s.Probes["debit_mode_rating"]++
		}
		if m.Request && m.Cmd == 272 {
			switch {
			case m.F.Action == 1:
				s.Probes["refund"]++
			case m.F.ReqType == 3:
				s.Probes["termination_debit"]++
			default:
				s.Probes["reservation"]++
			}
		}
		if !m.Request && m.Cmd == 272 && m.F.FUI {
			s.Probes["abmf_final_unit"]++
		}
		if m.Fault != "" {
			shape = append(shape, fmt.Sprintf("F%s:%s:%d", m.Fault, m.Peer, m.Cmd))
		}
	}
	for _, w := range h.Journal {
		if len(w.Data) > 65535 {
			s.Probes["file_over_64k"]++
		}
		if img, errs := readCdrFile(w.Data); img != nil && len(errs) == 0 {
			seen := map[string]int{}
			for _, p := range img.Payloads {
				if r, err := decodeCHFRecord(p); err == nil && r.HasSession {
					seen[r.SessionID]++
				}
			}
			for _, n := range seen {
				if n > 1 {
					s.Probes["record_split"]++
					break
				}
			}
			if len(img.Payloads) > 1 {
				s.Probes["multi_record_file"]++
			}
		}
	}
	var il []string
	for _, t := range h.Tasks {
		if t.Polls > 0 {
			s.Probes["lock_contended"]++
		}
		if t.Yields > 0 {
			s.Probes["yield_taken"] += int(t.Yields)
		}
		for _, e := range t.Trace {
			il = append(il, fmt.Sprintf("%020d %d %s", e.At, e.Task, e.What))
		}
	}
	if h.Scenario.Cfg.Concurrent {
		sort.Strings(il)
		var order []string
		for _, l := range il {
			order = append(order, l[21:])
		}
		s.Interleave = fmt.Sprintf("%x", rt.HashStr(strings.Join(order, "|")))
	}
	if len(h.DiamPanics) > 0 {
		s.Probes["diameter_handler_panic"] += len(h.DiamPanics)
	}
	if len(h.Notifs) > 0 {
		s.Probes["notification_sent"] += len(h.Notifs)
	}
	if h.Scenario.Cfg.Cgf {
		s.Probes["cgf_enabled_run"]++
		logins := 0
		for _, e := range h.FTP {
			switch e.What {
			case "login":
				logins++
			case "stor":
				s.Probes["ftp_file_transferred"]++
			case "idle-timeout":
				s.Probes["ftp_idle_timeout"]++
			case "restart":
				s.Probes["ftp_server_restart"]++
			}
		}
		if logins > 1 {
			s.Probes["ftp_relogin"] += logins - 1
		}
	}
	for k, v := range h.Fired {
		s.Faults[k] = v
	}
	s.SimNs = h.SimEndNs
	s.Msgs = len(h.Msgs)
	s.Writes = len(h.Journal)
	s.ShapeHash = fmt.Sprintf("%x", rt.HashStr(strings.Join(shape, "|")))
	return s
}
