// Package simnet is the simulated network between the CHF's Diameter clients and the
// rating / account-balance servers: in-memory byte streams with seed-derived latency,
// a message-aware Diameter tap, fault rules addressed to logical identities, and an
// exact census of connections.
//
// All waiting is done on channels and timers created inside the synctest bubble, so a
// blocked reader is durably blocked and simulated time can advance.
package simnet

import (
	"encoding/binary"
	"errors"
	"fmt"
	"io"
	"net"
	"sort"
	"sync"
	"time"

	"github.com/free5gc/chf/internal/verifsim/rt"
)

// ---------------------------------------------------------------- fault rules

// Fault kinds.
const (
	KDelay      = "delay"       // deliver the message DelayNs later than it would have been
	KWithhold   = "withhold"    // hold the message until the issuing op has returned, then deliver after DelayNs
	KDrop       = "drop"        // the message vanishes (peer never answered / request lost before the app saw it)
	KStall      = "stall"       // this message and everything after it in this direction never arrives
	KReset      = "reset"       // instead of delivering the message the connection is reset (both ends see an error)
	KRefuse     = "refuse"      // Dir "dial": connection refused
	KCloseAfter = "close-after" // deliver the message, then the sender's side resets the connection at once (peer restarts right after answering)
)

// Fault addresses one message (or dial) by logical identity.
type Fault struct {
	Peer    string `json:"peer"`     // "rf" | "abmf"
	Task    int    `json:"task"`     // dialing task id; -1 = any
	Op      int    `json:"op"`       // op id of the dialing task; -1 = any
	Dir     string `json:"dir"`      // "ans" (server->client), "req" (client->server), "dial"
	Cmd     uint32 `json:"cmd"`      // Diameter command code; 0 = any (handshake and watchdog included)
	Nth     int    `json:"nth"`      // n-th message in that scope (0-based)
	Kind    string `json:"kind"`     //
	DelayNs int64  `json:"delay_ns"` //
	seen    int
	fired   bool
}

// ---------------------------------------------------------------- message records

// Msg is one Diameter message seen by the tap.
type Msg struct {
	Conn      int    `json:"conn"`
	ConnOrd   int    `json:"conn_ord"` // ordinal of the connection among the dials of its task (schedule-independent identity)
	Peer      string `json:"peer"`
	Task      int    `json:"task"`
	Op        int    `json:"op"`
	ToClient  bool   `json:"to_client"`
	Ord       int    `json:"ord"` // ordinal in its direction
	Cmd       uint32 `json:"cmd"`
	Request   bool   `json:"request"`
	HopByHop  uint32 `json:"-"`
	EndToEnd  uint32 `json:"-"`
	SentAt    int64  `json:"sent_at"`
	DeliverAt int64  `json:"deliver_at"` // -1 = never / not yet scheduled
	Delivered bool   `json:"delivered"`  // bytes were made readable at the receiver while it was open
	Fault     string `json:"fault,omitempty"`
	Benign    bool   `json:"benign,omitempty"` // a short delay only: every answer still arrives long before any timeout
	Raw       []byte `json:"-"`
	F         Fields `json:"f"`
}

// Fields are the AVP values the oracles use, extracted by an independent TLV walk.
type Fields struct {
	SessionID   string `json:"sid,omitempty"`
	HasSession  bool   `json:"has_sid,omitempty"`
	ReqType     int64  `json:"rt"`
	HasReqType  bool   `json:"has_rt,omitempty"`
	ReqNum      int64  `json:"rn"`
	HasReqNum   bool   `json:"has_rn,omitempty"`
	Action      int64  `json:"act"`
	HasAction   bool   `json:"has_act,omitempty"`
	SubType     int64  `json:"sub_t"`
	SubData     string `json:"sub,omitempty"`
	RatingGroup int64  `json:"rg"`
	HasMSCC     bool   `json:"mscc,omitempty"`
	Requested   uint64 `json:"rsu"`
	HasRSU      bool   `json:"has_rsu,omitempty"`
	Granted     uint64 `json:"gsu"`
	HasGSU      bool   `json:"has_gsu,omitempty"`
	Used        uint64 `json:"usu"`
	HasUSU      bool   `json:"has_usu,omitempty"`
	FUI         bool   `json:"fui,omitempty"`
	FUAction    int64  `json:"fua"`
	ResultCode  int64  `json:"rc"`
	// Service-Rating
	HasSR        bool   `json:"sr,omitempty"`
	ServiceID    int64  `json:"svc"`
	MonetaryQ    uint64 `json:"mq"`
	Consumed     uint64 `json:"cu"`
	Allowed      uint64 `json:"au"`
	HasAllowed   bool   `json:"has_au,omitempty"`
	Price        uint64 `json:"price"`
	HasPrice     bool   `json:"has_price,omitempty"`
	ReqSubType   int64  `json:"rst"`
	HasTariff    bool   `json:"tariff,omitempty"`
	TariffDigits int64  `json:"td"`
	TariffExp    int64  `json:"te"`
	// Remaining-Balance
	HasRemain bool  `json:"rem,omitempty"`
	RemDigits int64 `json:"rem_d"`
	RemExp    int64 `json:"rem_e"`
}

// ---------------------------------------------------------------- network

type Config struct {
	Seed     uint64
	MinLatNs int64
	MaxLatNs int64
}

type Net struct {
	cfg Config

	mu        sync.Mutex
	listeners map[string]*Listener
	peers     map[string]string // addr -> peer name
	pairs     []*pair
	faults    []*Fault
	msgs      []*Msg
	fired     map[string]int
	dials     map[[3]int]int // (task, op, peerIdx) -> count
	dialOrd   map[int]int    // task -> dial ordinal
	peerIdx   map[string]int
	rawPeers  map[string]bool // peers whose traffic is not Diameter (FTP): every write is one opaque message
	closed    bool
}

func New(cfg Config) *Net {
	if cfg.MinLatNs <= 0 {
		cfg.MinLatNs = 100_000
	}
	if cfg.MaxLatNs < cfg.MinLatNs {
		cfg.MaxLatNs = cfg.MinLatNs
	}
	return &Net{
		cfg:       cfg,
		listeners: map[string]*Listener{},
		peers:     map[string]string{},
		fired:     map[string]int{},
		dials:     map[[3]int]int{},
		dialOrd:   map[int]int{},
		peerIdx:   map[string]int{},
		rawPeers:  map[string]bool{},
	}
}

// RawPeer declares that the connections of this peer carry something other than
// Diameter: each write is recorded and scheduled as one opaque message (Cmd 0).
func (n *Net) RawPeer(name string) {
	n.mu.Lock()
	n.rawPeers[name] = true
	n.mu.Unlock()
}

// NamePeer binds an address to a logical peer name used by fault rules.
func (n *Net) NamePeer(addr, name string) {
	n.mu.Lock()
	n.peers[addr] = name
	if _, ok := n.peerIdx[name]; !ok {
		n.peerIdx[name] = len(n.peerIdx) + 1
	}
	n.mu.Unlock()
}

func (n *Net) SetFaults(fs []Fault) {
	n.mu.Lock()
	n.faults = nil
	for i := range fs {
		f := fs[i]
		n.faults = append(n.faults, &f)
	}
	n.mu.Unlock()
}

// Fired returns kind -> number of faults that actually fired.
func (n *Net) Fired() map[string]int {
	n.mu.Lock()
	defer n.mu.Unlock()
	out := map[string]int{}
	for k, v := range n.fired {
		out[k] = v
	}
	return out
}

// FaultFiredOn reports whether any fault fired on a connection dialled by (task, op).
func (n *Net) FaultFiredOn(task, op int) bool {
	n.mu.Lock()
	defer n.mu.Unlock()
	for _, m := range n.msgs {
		// (a delay of at most 3 s is benign whatever became of the answer: "it was not taken
		// delivery of" cannot be the criterion, because that is exactly what cross-talk causes —
		// the operation runs off with another answer and hangs up.  An implementation whose
		// time-out is below 3 s is outside what C19, which names 5 s, describes.)
		if m.Task == task && m.Op == op && m.Fault != "" && !m.Benign {
			return true
		}
	}
	for _, p := range n.pairs {
		if p.task == task && p.op == op && p.dialFault != "" {
			return true
		}
	}
	return false
}

// Msgs returns the messages seen so far (shared records; read-only).
func (n *Net) Msgs() []*Msg {
	n.mu.Lock()
	defer n.mu.Unlock()
	return append([]*Msg(nil), n.msgs...)
}

func (n *Net) latency(keys ...uint64) int64 {
	h := rt.Hash(n.cfg.Seed, append([]uint64{0x1a7}, keys...)...)
	span := uint64(n.cfg.MaxLatNs - n.cfg.MinLatNs + 1)
	return n.cfg.MinLatNs + int64(h%span)
}

// ---------------------------------------------------------------- listener

type addr struct{ s string }

func (a addr) Network() string { return "tcp" }
func (a addr) String() string  { return a.s }

type Listener struct {
	n      *Net
	a      string
	ch     chan *end
	done   chan struct{}
	once   sync.Once
	closed bool
}

func (n *Net) Listen(network, address string) (net.Listener, error) {
	n.mu.Lock()
	defer n.mu.Unlock()
	if n.closed {
		return nil, errors.New("simnet: network closed")
	}
	if _, ok := n.listeners[address]; ok {
		return nil, fmt.Errorf("listen tcp %s: bind: address already in use", address)
	}
	l := &Listener{n: n, a: address, ch: make(chan *end, 1024), done: make(chan struct{})}
	n.listeners[address] = l
	return l, nil
}

func (l *Listener) Accept() (net.Conn, error) {
	select {
	case e := <-l.ch:
		return e, nil
	case <-l.done:
		return nil, errors.New("simnet: listener closed")
	}
}

func (l *Listener) Close() error {
	l.once.Do(func() {
		l.n.mu.Lock()
		delete(l.n.listeners, l.a)
		l.closed = true
		l.n.mu.Unlock()
		close(l.done)
	})
	return nil
}

func (l *Listener) Addr() net.Addr { return addr{l.a} }

// ---------------------------------------------------------------- connections

type pair struct {
	id        int
	ord       int
	peer      string
	addr      string // dialled address
	raw       bool
	hmu       sync.Mutex
	hops      map[uint32][2]int // hop-by-hop id of a request -> (task, op) that sent it
	task, op  int
	key       uint64
	c, s      *end // client end, server end
	openedAt  int64
	dialFault string
}

type chunk struct {
	data []byte
	fin  bool
	rst  bool
	msg  *Msg
}

// end is one endpoint (a net.Conn).  Data written on the other endpoint becomes readable
// here at its delivery instant.
type end struct {
	p        *pair
	isClient bool
	other    *end

	mu       sync.Mutex
	rbuf     []byte
	rfin     bool
	rerr     error
	closed   bool
	closedAt int64
	notify   chan struct{}

	// outbound direction state (messages written on this end travelling to other)
	wpartial  []byte
	wOrd      int
	lastAt    int64    // last scheduled delivery instant in this direction
	held      []*chunk // withheld message and everything queued behind it
	holding   bool
	stalled   bool
	heldDelay int64
	holdTask  int // the operation whose return releases what is held
	holdOp    int
}

func (e *end) wake() {
	select {
	case e.notify <- struct{}{}:
	default:
	}
}

func (n *Net) Dial(network, address string) (net.Conn, error) {
	t := rt.Current()
	task, op := -1, -1
	if t != nil {
		task, op = t.ID, CurOp(t)
	}
	n.mu.Lock()
	if n.closed {
		n.mu.Unlock()
		return nil, errors.New("simnet: network closed")
	}
	peer := n.peers[address]
	ord := n.dialOrd[task]
	n.dialOrd[task] = ord + 1
	dk := [3]int{task, op, n.peerIdx[peer]}
	nthDial := n.dials[dk]
	n.dials[dk] = nthDial + 1
	key := rt.Hash(n.cfg.Seed, 0xd1a1, uint64(int64(task)), uint64(ord))
	l := n.listeners[address]
	var dialFault *Fault
	for _, f := range n.faults {
		if f.Dir != "dial" || f.fired || f.Peer != peer {
			continue
		}
		if (f.Task != -1 && f.Task != task) || (f.Op != -1 && f.Op != op) {
			continue
		}
		f.seen++
		if f.seen-1 == f.Nth {
			f.fired = true
			dialFault = f
			n.fired["dial-"+f.Kind]++
			break
		}
	}
	lat := n.latency(key, 0)
	if dialFault != nil || l == nil {
		p := &pair{id: len(n.pairs), ord: ord, peer: peer, addr: address, task: task, op: op, key: key, openedAt: rt.Now()}
		if dialFault != nil {
			p.dialFault = dialFault.Kind
		}
		n.mu.Unlock()
		extra := int64(0)
		if dialFault != nil {
			extra = dialFault.DelayNs
		}
		time.Sleep(time.Duration(lat + extra))
		return nil, fmt.Errorf("dial tcp %s: connect: connection refused", address)
	}
	p := &pair{id: len(n.pairs), ord: ord, peer: peer, addr: address, raw: n.rawPeers[peer], task: task, op: op, key: key, openedAt: rt.Now()}
	p.c = &end{p: p, isClient: true, notify: make(chan struct{}, 1)}
	p.s = &end{p: p, isClient: false, notify: make(chan struct{}, 1)}
	p.c.other, p.s.other = p.s, p.c
	n.pairs = append(n.pairs, p)
	n.mu.Unlock()

	// SYN / SYN-ACK: the server sees the connection after one latency, the client
	// returns after two.
	time.AfterFunc(time.Duration(lat), func() {
		select {
		case l.ch <- p.s:
		case <-l.done:
			p.s.reset()
		}
	})
	time.Sleep(time.Duration(2 * lat))
	return p.c, nil
}

// curOp is maintained by the harness: which op a task is currently executing.
var (
	curOpMu sync.RWMutex
	curOp   = map[*rt.Task]int{}
)

func SetCurOp(t *rt.Task, op int) {
	curOpMu.Lock()
	curOp[t] = op
	curOpMu.Unlock()
}

func CurOp(t *rt.Task) int {
	curOpMu.RLock()
	defer curOpMu.RUnlock()
	if v, ok := curOp[t]; ok {
		return v
	}
	return -1
}

func ResetCurOps() {
	curOpMu.Lock()
	curOp = map[*rt.Task]int{}
	curOpMu.Unlock()
}

func (e *end) Read(b []byte) (int, error) {
	for {
		e.mu.Lock()
		if e.closed {
			e.mu.Unlock()
			return 0, net.ErrClosed
		}
		if len(e.rbuf) > 0 {
			k := copy(b, e.rbuf)
			e.rbuf = e.rbuf[k:]
			e.mu.Unlock()
			return k, nil
		}
		if e.rerr != nil {
			err := e.rerr
			e.mu.Unlock()
			return 0, err
		}
		if e.rfin {
			e.mu.Unlock()
			return 0, io.EOF
		}
		e.mu.Unlock()
		<-e.notify
	}
}

var errReset = errors.New("read: connection reset by peer (simulated)")

// deliver makes a chunk readable at the receiving end (runs at its delivery instant).
func (e *end) deliver(c *chunk) {
	e.mu.Lock()
	switch {
	case c.rst:
		e.rerr = errReset
		e.rbuf = nil
	case c.fin:
		e.rfin = true
	default:
		if !e.closed && e.rerr == nil && !e.rfin {
			e.rbuf = append(e.rbuf, c.data...)
			if c.msg != nil {
				if n := e.p.net(); n != nil {
					n.mu.Lock()
					c.msg.Delivered = true
					n.mu.Unlock()
				} else {
					c.msg.Delivered = true
				}
			}
		}
	}
	e.mu.Unlock()
	e.wake()
}

// schedule assigns a delivery instant (FIFO per direction) and arms the timer.
// Caller holds e.mu (the sending end's lock guards its outbound direction state).
func (e *end) schedule(c *chunk, extra int64) {
	n := e.p.net()
	dir := uint64(0)
	if e.isClient {
		dir = 1
	}
	e.wOrd++
	at := rt.Now() + n.latency(e.p.key, dir, uint64(e.wOrd)) + extra
	if at <= e.lastAt {
		at = e.lastAt + 1
	}
	// deliveries land in the residue class of the connection's owner, so that two tasks are
	// never woken by the network at the same simulated nanosecond
	slot := rt.SlotOf(e.p.task)
	if e.p.raw {
		slot = rt.RawSlot(e.p.id)
	}
	at = rt.AlignAt(slot, at)
	e.lastAt = at
	if c.msg != nil {
		c.msg.DeliverAt = at
	}
	dst := e.other
	time.AfterFunc(time.Duration(at-rt.Now()), func() { dst.deliver(c) })
}

var theNet *Net // one network per run; set by Install

func (p *pair) net() *Net { return theNet }

// Install makes n the network used by subsequently created connections.
func Install(n *Net) { theNet = n }

func (e *end) Write(b []byte) (int, error) {
	e.mu.Lock()
	defer e.mu.Unlock()
	if e.closed {
		return 0, net.ErrClosed
	}
	if e.rerr != nil {
		return 0, errors.New("write: broken pipe (simulated)")
	}
	if e.p.raw {
		if len(b) == 0 {
			return 0, nil
		}
		raw := append([]byte(nil), b...)
		m := e.recordRaw(raw)
		e.emit(&chunk{data: raw, msg: m}, m)
		return len(b), nil
	}
	e.wpartial = append(e.wpartial, b...)
	for len(e.wpartial) >= 20 {
		ml := int(e.wpartial[1])<<16 | int(e.wpartial[2])<<8 | int(e.wpartial[3])
		if e.wpartial[0] != 1 || ml < 20 {
			// not Diameter: pass through as one opaque chunk
			raw := append([]byte(nil), e.wpartial...)
			e.wpartial = nil
			e.emit(&chunk{data: raw}, nil)
			break
		}
		if len(e.wpartial) < ml {
			break
		}
		raw := append([]byte(nil), e.wpartial[:ml]...)
		e.wpartial = e.wpartial[ml:]
		m := e.record(raw)
		e.emit(&chunk{data: raw, msg: m}, m)
	}
	return len(b), nil
}

// record parses the header (and AVPs) and logs the message.
func (e *end) record(raw []byte) *Msg {
	n := e.p.net()
	m := &Msg{
		Conn: e.p.id, ConnOrd: e.p.ord, Peer: e.p.peer, Task: e.p.task, Op: e.p.op,
		ToClient: !e.isClient,
		Cmd:      uint32(raw[5])<<16 | uint32(raw[6])<<8 | uint32(raw[7]),
		Request:  raw[4]&0x80 != 0,
		HopByHop: binary.BigEndian.Uint32(raw[12:16]),
		EndToEnd: binary.BigEndian.Uint32(raw[16:20]),
		SentAt:   rt.Now(), DeliverAt: -1, Raw: raw,
	}
	m.F = ParseFields(raw[20:])
	// A message belongs to the operation that sent the request it is (or answers), not to the one
	// that happened to dial the connection: an implementation may keep connections open.
	if e.isClient {
		if t := rt.Current(); t != nil {
			m.Task, m.Op = t.ID, CurOp(t)
		}
		if m.Request {
			e.p.hmu.Lock()
			if e.p.hops == nil {
				e.p.hops = map[uint32][2]int{}
			}
			e.p.hops[m.HopByHop] = [2]int{m.Task, m.Op}
			e.p.hmu.Unlock()
		}
	} else if !m.Request {
		e.p.hmu.Lock()
		if own, ok := e.p.hops[m.HopByHop]; ok {
			m.Task, m.Op = own[0], own[1]
		}
		e.p.hmu.Unlock()
	}
	n.mu.Lock()
	m.Ord = len(n.msgs)
	n.msgs = append(n.msgs, m)
	n.mu.Unlock()
	return m
}

// recordRaw logs one write of a non-Diameter connection.
func (e *end) recordRaw(raw []byte) *Msg {
	n := e.p.net()
	m := &Msg{
		Conn: e.p.id, ConnOrd: e.p.ord, Peer: e.p.peer, Task: e.p.task, Op: e.p.op,
		ToClient: !e.isClient, SentAt: rt.Now(), DeliverAt: -1, Raw: raw,
	}
	n.mu.Lock()
	m.Ord = len(n.msgs)
	n.msgs = append(n.msgs, m)
	n.mu.Unlock()
	return m
}

// emit applies fault rules to a chunk and schedules / holds / drops it.
func (e *end) emit(c *chunk, m *Msg) {
	if e.stalled {
		if m != nil {
			m.Fault = KStall
		}
		return
	}
	if e.holding {
		e.held = append(e.held, c)
		return
	}
	var f *Fault
	if m != nil {
		f = e.p.net().match(e, m)
	}
	if f == nil {
		e.schedule(c, 0)
		return
	}
	m.Fault = f.Kind
	switch f.Kind {
	case KDelay:
		m.Benign = f.DelayNs <= 3_000_000_000
		e.schedule(c, f.DelayNs)
	case KWithhold:
		e.holding = true
		e.holdTask, e.holdOp = m.Task, m.Op
		e.heldDelay = f.DelayNs
		e.held = append(e.held, c)
	case KDrop:
	case KStall:
		e.stalled = true
	case KCloseAfter:
		e.schedule(c, 0)
		e.schedule(&chunk{rst: true}, 0) // FIFO: arrives one simulated nanosecond after the message
		self := e
		time.AfterFunc(time.Duration(e.p.net().latency(e.p.key, 7, uint64(e.wOrd))), func() {
			self.deliver(&chunk{rst: true})
		})
	case KReset:
		// both ends observe a reset after one latency
		e.schedule(&chunk{rst: true}, 0)
		self := e
		time.AfterFunc(time.Duration(e.p.net().latency(e.p.key, 7, uint64(e.wOrd))), func() {
			self.deliver(&chunk{rst: true})
		})
	default:
		e.schedule(c, 0)
	}
}

func (n *Net) match(e *end, m *Msg) *Fault {
	dir := "req"
	if !e.isClient {
		dir = "ans"
	}
	n.mu.Lock()
	defer n.mu.Unlock()
	for _, f := range n.faults {
		if f.fired || f.Dir != dir || f.Peer != e.p.peer {
			continue
		}
		if (f.Task != -1 && f.Task != m.Task) || (f.Op != -1 && f.Op != m.Op) {
			continue
		}
		if f.Cmd != 0 && f.Cmd != m.Cmd {
			continue
		}
		f.seen++
		if f.seen-1 == f.Nth {
			f.fired = true
			n.fired[dir+"-"+f.Kind]++
			return f
		}
	}
	return nil
}

// OpDone tells the network that op of task has returned: withheld messages on the
// connections that op dialled are released.
func (n *Net) OpDone(task, op int) {
	n.mu.Lock()
	pairs := append([]*pair(nil), n.pairs...)
	n.mu.Unlock()
	for _, p := range pairs {
		if p.c == nil {
			continue
		}
		for _, e := range []*end{p.c, p.s} {
			e.mu.Lock()
			if e.holding && e.holdTask == task && e.holdOp == op {
				e.holding = false
				held := e.held
				e.held = nil
				for i, c := range held {
					extra := int64(0)
					if i == 0 {
						extra = e.heldDelay
					}
					if e.closed && !c.fin && !c.rst {
						// sender closed meanwhile: bytes already in flight still arrive
					}
					e.schedule(c, extra)
				}
			}
			e.mu.Unlock()
		}
	}
}

func (e *end) reset() {
	e.deliver(&chunk{rst: true})
}

func (e *end) Close() error {
	e.mu.Lock()
	if e.closed {
		e.mu.Unlock()
		return nil
	}
	e.closed = true
	e.closedAt = rt.Now()
	e.rbuf = nil
	// FIN travels behind everything already written in this direction.
	fin := &chunk{fin: true}
	if e.stalled {
		// nothing arrives any more
	} else if e.holding {
		e.held = append(e.held, fin)
	} else if theNet != nil && !theNet.isClosed() {
		e.schedule(fin, 0)
	} else {
		o := e.other
		e.mu.Unlock()
		o.deliver(fin)
		e.wake()
		return nil
	}
	e.mu.Unlock()
	e.wake()
	return nil
}

func (n *Net) isClosed() bool {
	n.mu.Lock()
	defer n.mu.Unlock()
	return n.closed
}

func (p *pair) clientAddr() net.Addr {
	return &net.TCPAddr{IP: net.IPv4(10, 0, 0, 1), Port: 40000 + p.id%20000}
}

func (p *pair) serverAddr() net.Addr {
	if a, err := net.ResolveTCPAddr("tcp", p.addr); err == nil && a.IP != nil {
		return a
	}
	return &net.TCPAddr{IP: net.IPv4(10, 0, 0, 2), Port: 3868}
}

func (e *end) LocalAddr() net.Addr {
	if e.isClient {
		return e.p.clientAddr()
	}
	return e.p.serverAddr()
}

func (e *end) RemoteAddr() net.Addr {
	if e.isClient {
		return e.p.serverAddr()
	}
	return e.p.clientAddr()
}

func (e *end) SetDeadline(t time.Time) error      { return nil }
func (e *end) SetReadDeadline(t time.Time) error  { return nil }
func (e *end) SetWriteDeadline(t time.Time) error { return nil }

// ---------------------------------------------------------------- census

// Census is the exact connection count.
type Census struct {
	Dialed       int            `json:"dialed"`
	ClientOpen   int            `json:"client_open"` // client end not closed and not reset/EOF'd
	ServerOpen   int            `json:"server_open"`
	EitherOpen   int            `json:"either_open"`
	ByPeerOpen   map[string]int `json:"by_peer_open"`
	RefusedDials int            `json:"refused_dials"`
}

func (n *Net) Census() Census {
	n.mu.Lock()
	pairs := append([]*pair(nil), n.pairs...)
	n.mu.Unlock()
	c := Census{ByPeerOpen: map[string]int{}}
	for _, p := range pairs {
		if p.c == nil {
			c.RefusedDials++
			continue
		}
		c.Dialed++
		p.c.mu.Lock()
		co := !p.c.closed
		p.c.mu.Unlock()
		p.s.mu.Lock()
		so := !p.s.closed
		p.s.mu.Unlock()
		if co {
			c.ClientOpen++
		}
		if so {
			c.ServerOpen++
		}
		if co || so {
			c.EitherOpen++
			c.ByPeerOpen[p.peer]++
		}
	}
	return c
}

// CloseAll closes every listener and connection (end of run).
func (n *Net) CloseAll() {
	n.mu.Lock()
	n.closed = true
	var ls []*Listener
	for _, l := range n.listeners {
		ls = append(ls, l)
	}
	sort.Slice(ls, func(i, j int) bool { return ls[i].a < ls[j].a })
	pairs := append([]*pair(nil), n.pairs...)
	n.mu.Unlock()
	for _, l := range ls {
		l.Close()
	}
	for _, p := range pairs {
		if p.c == nil {
			continue
		}
		for _, e := range []*end{p.c, p.s} {
			e.mu.Lock()
			e.closed = true
			e.rerr = errReset
			e.mu.Unlock()
			e.wake()
		}
	}
}

// ---------------------------------------------------------------- AVP walker

type avp struct {
	code   uint32
	vendor uint32
	data   []byte
}

func walk(b []byte) []avp {
	var out []avp
	for len(b) >= 8 {
		code := binary.BigEndian.Uint32(b[0:4])
		flags := b[4]
		l := int(b[5])<<16 | int(b[6])<<8 | int(b[7])
		hdr := 8
		var vendor uint32
		if flags&0x80 != 0 {
			if len(b) < 12 {
				break
			}
			vendor = binary.BigEndian.Uint32(b[8:12])
			hdr = 12
		}
		if l < hdr || l > len(b) {
			break
		}
		out = append(out, avp{code: code, vendor: vendor, data: b[hdr:l]})
		pl := (l + 3) &^ 3
		if pl > len(b) {
			pl = len(b)
		}
		b = b[pl:]
	}
	return out
}

func u(b []byte) uint64 {
	var v uint64
	for _, x := range b {
		v = v<<8 | uint64(x)
	}
	return v
}

func s(b []byte) int64 {
	switch len(b) {
	case 4:
		return int64(int32(binary.BigEndian.Uint32(b)))
	case 8:
		return int64(binary.BigEndian.Uint64(b))
	}
	return int64(u(b))
}

// ParseFields extracts the fields used by the oracles from the AVP area of a message.
func ParseFields(b []byte) Fields {
	var f Fields
	for _, a := range walk(b) {
		switch a.code {
		case 263:
			f.SessionID, f.HasSession = string(a.data), true
		case 268:
			f.ResultCode = int64(u(a.data))
		case 416:
			f.ReqType, f.HasReqType = s(a.data), true
		case 415:
			f.ReqNum, f.HasReqNum = int64(u(a.data)), true
		case 436:
			f.Action, f.HasAction = s(a.data), true
		case 443:
			for _, c := range walk(a.data) {
				switch c.code {
				case 450:
					f.SubType = s(c.data)
				case 444:
					f.SubData = string(c.data)
				}
			}
		case 456:
			f.HasMSCC = true
			for _, c := range walk(a.data) {
				switch c.code {
				case 432:
					f.RatingGroup = int64(u(c.data))
				case 437:
					f.HasRSU = true
					for _, d := range walk(c.data) {
						if d.code == 421 {
							f.Requested = u(d.data)
						}
					}
				case 431:
					f.HasGSU = true
					for _, d := range walk(c.data) {
						if d.code == 421 {
							f.Granted = u(d.data)
						}
					}
				case 446:
					f.HasUSU = true
					for _, d := range walk(c.data) {
						if d.code == 421 {
							f.Used = u(d.data)
						}
					}
				case 430:
					f.FUI = true
					for _, d := range walk(c.data) {
						if d.code == 449 {
							f.FUAction = s(d.data)
						}
					}
				}
			}
		case 2021, 445: // Remaining-Balance (3GPP 2021) or bare Unit-Value
			if a.code == 2021 {
				f.HasRemain = true
				for _, c := range walk(a.data) {
					if c.code == 445 {
						for _, d := range walk(c.data) {
							switch d.code {
							case 447:
								f.RemDigits = s(d.data)
							case 429:
								f.RemExp = s(d.data)
							}
						}
					}
				}
			}
		case 7002:
			f.HasSR = true
			for _, c := range walk(a.data) {
				switch c.code {
				case 439:
					f.ServiceID = int64(u(c.data))
				case 7016:
					f.MonetaryQ = u(c.data)
				case 7014:
					f.Consumed = u(c.data)
				case 7021:
					f.Allowed, f.HasAllowed = u(c.data), true
				case 7005:
					f.Price, f.HasPrice = u(c.data), true
				case 7013:
					f.ReqSubType = s(c.data)
				case 7008:
					for _, d := range walk(c.data) {
						if d.code == 2058 {
							for _, g := range walk(d.data) {
								if g.code == 2061 {
									f.HasTariff = true
									for _, h := range walk(g.data) {
										switch h.code {
										case 447:
											f.TariffDigits = s(h.data)
										case 429:
											f.TariffExp = s(h.data)
										}
									}
								}
							}
						}
					}
				}
			}
		}
	}
	return f
}
