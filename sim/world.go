// Package verifsim is the deterministic-simulation harness for free5gc/chf.  It is
// overlaid as github.com/free5gc/chf/internal/verifsim at check time (never committed
// to /repo) so that it may import the CHF's internal packages.
package verifsim

import (
	"context"
	"encoding/json"
	"fmt"
	"io"
	"log"
	"net"
	"net/http"
	"sort"
	"strconv"
	"strings"
	"sync"
	"sync/atomic"
	"time"

	"github.com/fiorix/go-diameter/diam"
	"github.com/fiorix/go-diameter/diam/dict"
	"github.com/gin-gonic/gin"
	"github.com/h2non/gock"
	"github.com/jlaffaye/ftp"
	"github.com/sirupsen/logrus"

	chf_context "github.com/free5gc/chf/internal/context"
	"github.com/free5gc/chf/internal/cgf"
	"github.com/free5gc/chf/internal/logger"
	"github.com/free5gc/chf/internal/sbi"
	"github.com/free5gc/chf/internal/sbi/consumer"
	"github.com/free5gc/chf/internal/sbi/processor"
	"github.com/free5gc/chf/internal/verifsim/rt"
	"github.com/free5gc/chf/internal/verifsim/simnet"
	"github.com/free5gc/chf/pkg/abmf"
	"github.com/free5gc/chf/pkg/factory"
	"github.com/free5gc/chf/pkg/rf"
	"github.com/free5gc/openapi"
	"github.com/free5gc/util/mongoapi"
)

const (
	chargingColl = "policyData.ues.chargingData"
	rfAddr       = "127.0.0.1:3869"
	abmfAddr     = "127.0.0.1:3868"
)

// simApp implements sbi.ServerChf with the real processor and consumer.
type simApp struct {
	ctx  context.Context
	proc *processor.Processor
	cons *consumer.Consumer
}

func (a *simApp) SetLogEnable(bool)                {}
func (a *simApp) SetLogLevel(string)               {}
func (a *simApp) SetReportCaller(bool)             {}
func (a *simApp) Start()                           {}
func (a *simApp) Terminate()                       {}
func (a *simApp) Context() *chf_context.CHFContext { return chf_context.GetSelf() }
func (a *simApp) Config() *factory.Config          { return factory.ChfConfig }
func (a *simApp) Consumer() *consumer.Consumer     { return a.cons }
func (a *simApp) Processor() *processor.Processor  { return a.proc }
func (a *simApp) CancelContext() context.Context   { return a.ctx }

// Notification recorded by the sink.
type Notification struct {
	At     int64           `json:"at"`
	Method string          `json:"method"`
	URL    string          `json:"url"`
	Body   json.RawMessage `json:"body"`
	RGs    []int32         `json:"rgs"`
}

// World is one booted system: CHF (SBI router + processor), RF server, ABMF server,
// stub DB, simulated network and disk, notification sink.
type World struct {
	Net    *simnet.Net
	FTP    *FTPServer // billing domain (nil unless Cfg.Cgf)
	Router *gin.Engine
	cancel context.CancelFunc
	wg     sync.WaitGroup

	sinkMu      sync.Mutex
	Notifs      []Notification
	SinkMode    string // "ok" | "500" | "error"
	SinkDelayNs int64
	OnNotify    func(cancelled <-chan struct{}) // called while the notification is outstanding
	panics      []string
	lc          *logCapture
	seed        uint64
	randCtr     uint64
	randMu      sync.Mutex
}

var (
	pristineDict *dict.Parser
	bootOnce     sync.Once
	hookOnce     sync.Once
	curWorld     atomic.Pointer[World]
)

// panicHook records the panics that the CHF's gin recovery middleware logs.
type panicHook struct{}

func (panicHook) Levels() []logrus.Level { return []logrus.Level{logrus.ErrorLevel} }
func (panicHook) Fire(e *logrus.Entry) error {
	if !strings.HasPrefix(e.Message, "panic: ") {
		return nil
	}
	w := curWorld.Load()
	if w == nil {
		return nil
	}
	msg := e.Message
	first := msg
	if i := strings.Index(first, "\n"); i > 0 {
		first = first[:i]
	}
	site := "unknown"
	lines := strings.Split(msg, "\n")
	seenPanic := false
	for _, l := range lines {
		l = strings.TrimSpace(l)
		if strings.HasPrefix(l, "panic(") {
			seenPanic = true
			continue
		}
		if seenPanic && strings.HasPrefix(l, "github.com/free5gc/chf/") && !strings.Contains(l, "/verifsim") {
			if i := strings.LastIndex(l, "("); i > 0 {
				l = l[:i]
			}
			site = strings.TrimPrefix(l, "github.com/free5gc/chf/")
			break
		}
	}
	w.sinkMu.Lock()
	w.panics = append(w.panics, first+" @ "+site)
	w.sinkMu.Unlock()
	return nil
}

// TakePanics returns and clears the recorded panics.
func (w *World) TakePanics() []string {
	w.sinkMu.Lock()
	defer w.sinkMu.Unlock()
	p := w.panics
	w.panics = nil
	return p
}

func baseConfig(rc RunCfg) *factory.Config {
	return &factory.Config{
		Info: &factory.Info{Version: "1.0.3", Description: "verif"},
		Configuration: &factory.Configuration{
			ChfName: "CHF",
			Sbi: &factory.Sbi{
				Scheme: "http", RegisterIPv4: "127.0.0.113", BindingIPv4: "127.0.0.113", Port: 8000,
			},
			ServiceNameList:     []string{"nchf-convergedcharging"},
			NrfUri:              "http://127.0.0.10:8000",
			Mongodb:             &factory.Mongodb{Name: "free5gc", Url: "mongodb://sim"},
			VolumeLimit:         rc.VolumeLimit,
			VolumeLimitPDU:      rc.VolumeLimitPDU,
			ReserveQuotaRatio:   0,
			VolumeThresholdRate: rc.ThresholdRate,
			QuotaValidityTime:   rc.QuotaValidity,
			RfDiameter: &factory.Diameter{Protocol: "tcp", HostIPv4: "127.0.0.1", Port: 3869,
				Tls: &factory.Tls{Pem: "cert/chf.pem", Key: "cert/chf.key"}},
			AbmfDiameter: &factory.Diameter{Protocol: "tcp", HostIPv4: "127.0.0.1", Port: 3868,
				Tls: &factory.Tls{Pem: "cert/chf.pem", Key: "cert/chf.key"}},
			Cgf: &factory.Cgf{Enable: false, HostIPv4: "127.0.0.1", Port: 2121, ListenPort: 2122},
		},
		Logger: &factory.Logger{Enable: false, Level: "panic"},
	}
}

// Boot starts a fresh system inside the current bubble.
func Boot(sc *Scenario) (*World, error) {
	rc := sc.Cfg
	bootOnce.Do(func() {
		gin.SetMode(gin.ReleaseMode)
		openapi.InterceptH2CClient()
		pristineDict = dict.Default.SimClone()
	})
	// package-level channels / timers of the system are made anew, inside this run's bubble
	rt.RunBootHooks()
	rt.ResetPools()
	// every run starts with the dictionaries of a freshly started process
	dict.Default = pristineDict.SimClone()
	logger.Log.SetLevel(logrus.ErrorLevel)
	logger.Log.SetOutput(io.Discard)

	w := &World{seed: sc.Seed, SinkMode: rc.SinkMode, SinkDelayNs: rc.SinkDelayNs}
	w.lc = &logCapture{}
	log.SetOutput(w.lc)
	log.SetFlags(0)
	curWorld.Store(w)
	hookOnce.Do(func() { logger.Log.AddHook(panicHook{}) })
	if w.SinkMode == "" {
		w.SinkMode = "ok"
	}

	// time zone of the "host"
	time.Local = time.FixedZone("SIM", rc.TZOffsetSec)

	factory.ChfConfig = baseConfig(rc)
	mongoapi.SimReset()
	rt.DiskReset()
	simnet.ResetCurOps()

	// fresh CHF context
	self := chf_context.GetSelf()
	resetContext(self)
	chf_context.Init()
	self.NfId = "00000000-0000-4000-8000-00000000c4f0"
	self.LocalRecordSequenceNumber = rc.CounterStart

	w.Net = simnet.New(simnet.Config{Seed: sc.Seed, MinLatNs: rc.MinLatNs, MaxLatNs: rc.MaxLatNs})
	simnet.Install(w.Net)
	w.Net.NamePeer(rfAddr, "rf")
	w.Net.NamePeer(abmfAddr, "abmf")
	w.Net.SetFaults(sc.Faults)
	diam.SimDial = w.Net.Dial
	diam.SimListen = w.Net.Listen
	diam.SimLockWait = rt.LockWait
	diam.SimBarrier = rt.Barrier
	diam.SimRand = w.nextID
	ftp.SimDial = func(network, address string, _ time.Duration) (net.Conn, error) { return w.Net.Dial(network, address) }
	cgf.VerifDisable()
	if rc.Cgf {
		var err error
		if w.FTP, err = startFTPServer(w.Net, rc.CgfIdleNs); err != nil {
			return nil, err
		}
		cgf.VerifEnable(cgfCtrlAddr)
	}

	mongoapi.SimHook = nil
	if rc.DBDelayMaxNs > 0 {
		var dbCalls atomic.Uint64
		seed, maxNs := sc.Seed, uint64(rc.DBDelayMaxNs)
		mongoapi.SimHook = func(op, coll string) error {
			if rt.Active() {
				time.Sleep(time.Duration(1 + rt.Hash(seed, 0xdb, dbCalls.Add(1))%maxNs))
			}
			return nil
		}
	}
	for _, a := range sc.Accounts {
		d := map[string]interface{}{"ueId": a.Supi, "ratingGroup": int32(a.RG)}
		if !a.NoQuota {
			d["quota"] = strconv.FormatInt(a.Quota, 10)
		}
		if !a.NoUnitCost {
			d["unitCost"] = a.UnitCost
		}
		mongoapi.SimInsert(chargingColl, d)
	}

	ctx, cancel := context.WithCancel(context.Background())
	w.cancel = cancel
	w.wg.Add(2)
	rf.OpenServer(ctx, &w.wg)
	abmf.OpenServer(ctx, &w.wg)

	app := &simApp{ctx: ctx}
	var err error
	if app.proc, err = processor.NewProcessor(app); err != nil {
		return nil, err
	}
	if app.cons, err = consumer.NewConsumer(app); err != nil {
		return nil, err
	}
	srv, err := sbi.NewServer(app, "")
	if err != nil {
		return nil, err
	}
	w.Router = srv.VerifRouter()

	w.installSink()
	// let the listeners come up
	time.Sleep(time.Millisecond)
	return w, nil
}

func (w *World) nextID() uint32 {
	w.randMu.Lock()
	w.randCtr++
	c := w.randCtr
	w.randMu.Unlock()
	v := uint32(rt.Hash(w.seed, 0x1d5, c))
	if v == 0 {
		v = 1
	}
	return v
}

func resetContext(self *chf_context.CHFContext) {
	var keys []interface{}
	self.UePool.Range(func(k, v interface{}) bool { keys = append(keys, k); return true })
	for _, k := range keys {
		self.UePool.Delete(k)
	}
	self.LocalRecordSequenceNumber = 0
	self.RecordSequenceNumber = nil
	self.OAuth2Required = false
	self.NrfCertPem = ""
}

// installSink registers the persistent gock mock that plays the SMF's notification
// endpoint.
func (w *World) installSink() {
	gock.Off()
	gock.DisableNetworking()
	match := func(mode string) gock.MatchFunc {
		return func(req *http.Request, _ *gock.Request) (bool, error) {
			w.sinkMu.Lock()
			cur := w.SinkMode
			delay := w.SinkDelayNs
			w.sinkMu.Unlock()
			if cur != mode {
				return false, nil
			}
			var body []byte
			if req.Body != nil {
				buf := make([]byte, 0, 512)
				tmp := make([]byte, 512)
				for {
					n, err := req.Body.Read(tmp)
					buf = append(buf, tmp[:n]...)
					if err != nil {
						break
					}
				}
				body = buf
			}
			n := Notification{At: rt.Now(), Method: req.Method, URL: req.URL.String(), Body: body}
			var parsed struct {
				ReauthorizationDetails []struct {
					RatingGroup int32 `json:"ratingGroup"`
				} `json:"reauthorizationDetails"`
			}
			if json.Unmarshal(body, &parsed) == nil {
				for _, d := range parsed.ReauthorizationDetails {
					n.RGs = append(n.RGs, d.RatingGroup)
				}
			}
			_ = delay
			w.sinkMu.Lock()
			w.Notifs = append(w.Notifs, n)
			w.sinkMu.Unlock()
			return true, nil
		}
	}
	for _, mode := range []string{"ok", "500", "error"} {
		m := gock.New("http://smf.sim")
		m.Persist()
		// replace the default matchers (method/host/path/...) by ours: any request is a notification
		m.SetMatcher(gock.NewEmptyMatcher())
		m.AddMatcher(match(mode))
		// the delay is applied while building the response (gock holds no lock there)
		slow := func(res *http.Response) *http.Response {
			w.sinkMu.Lock()
			d := w.SinkDelayNs
			cb := w.OnNotify
			w.sinkMu.Unlock()
			if cb != nil {
				// the SMF reacts to the notification (e.g. sends a usage update) before it answers it
				var done <-chan struct{}
				if res != nil && res.Request != nil {
					done = res.Request.Context().Done()
				}
				cb(done)
			}
			if d > 0 {
				time.Sleep(time.Duration(d))
			}
			return res
		}
		switch mode {
		case "ok":
			m.Reply(204).Map(slow)
		case "500":
			m.Reply(500).JSON(map[string]interface{}{"status": 500, "cause": "SYSTEM_FAILURE"}).Map(slow)
		case "error":
			m.ReplyError(fmt.Errorf("simulated transport error"))
		}
	}
}

// NotifCount returns the number of notifications received so far.
func (w *World) NotifCount() int {
	w.sinkMu.Lock()
	defer w.sinkMu.Unlock()
	return len(w.Notifs)
}

func (w *World) NotifsCopy() []Notification {
	w.sinkMu.Lock()
	defer w.sinkMu.Unlock()
	return append([]Notification(nil), w.Notifs...)
}

// Close tears the system down: cancels the servers, closes every listener and
// connection.
func (w *World) Close() {
	w.cancel()
	w.Net.CloseAll()
	gock.Off()
}

// ---------------------------------------------------------------- state access

// Quota returns the stored balance of (supi, rg): value, present.
func Quota(supi string, rg int32) (int64, bool) {
	for _, d := range mongoapi.SimDump(chargingColl) {
		if s, _ := d["ueId"].(string); s != supi {
			continue
		}
		if !numIs(d["ratingGroup"], int64(rg)) {
			continue
		}
		q, ok := d["quota"].(string)
		if !ok {
			return 0, false
		}
		v, err := strconv.ParseInt(q, 10, 64)
		if err != nil {
			return 0, false
		}
		return v, true
	}
	return 0, false
}

func numIs(v interface{}, want int64) bool {
	switch x := v.(type) {
	case int32:
		return int64(x) == want
	case int64:
		return x == want
	case int:
		return int64(x) == want
	case uint32:
		return int64(x) == want
	case float64:
		return x == float64(want)
	}
	return false
}

// SetQuota overwrites the stored balance (what the web console does on a top-up).
func SetQuota(supi string, rg int32, q int64) {
	_, _ = mongoapi.RestfulAPIPutOne(chargingColl,
		map[string]interface{}{"ueId": supi, "ratingGroup": rg},
		map[string]interface{}{"quota": strconv.FormatInt(q, 10)})
}

// SetUnitCost overwrites the stored tariff.
func SetUnitCost(supi string, rg int32, cost string) {
	_, _ = mongoapi.RestfulAPIPutOne(chargingColl,
		map[string]interface{}{"ueId": supi, "ratingGroup": rg},
		map[string]interface{}{"unitCost": cost})
}

// UnitCostOf returns ChfUe.UnitCost[rg] (0 if unknown).
func UnitCostOf(supi string, rg int32) uint32 {
	ue, ok := chf_context.GetSelf().ChfUeFindBySupi(supi)
	if !ok {
		return 0
	}
	return ue.UnitCost[rg]
}

// Reserved returns ChfUe.ReservedQuota[rg] (0 if the subscriber or group is unknown).
func Reserved(supi string, rg int32) int64 {
	ue, ok := chf_context.GetSelf().ChfUeFindBySupi(supi)
	if !ok {
		return 0
	}
	return ue.ReservedQuota[rg]
}

// DBDump returns a canonical rendering of all stored documents.
func DBDump() string {
	var lines []string
	for _, c := range mongoapi.SimCollections() {
		for _, d := range mongoapi.SimDump(c) {
			keys := make([]string, 0, len(d))
			for k := range d {
				keys = append(keys, k)
			}
			sort.Strings(keys)
			s := c + "{"
			for _, k := range keys {
				s += fmt.Sprintf("%s=%v;", k, d[k])
			}
			lines = append(lines, s+"}")
		}
	}
	sort.Strings(lines)
	out := ""
	for _, l := range lines {
		out += l + "\n"
	}
	return out
}
