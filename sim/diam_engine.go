package verifsim

import (
	"fmt"
	"runtime"
	"time"

	"github.com/fiorix/go-diameter/diam"
	"github.com/fiorix/go-diameter/diam/avp"
	"github.com/fiorix/go-diameter/diam/datatype"
	"github.com/fiorix/go-diameter/diam/dict"
	"github.com/fiorix/go-diameter/diam/sm"
	"github.com/fiorix/go-diameter/diam/sm/smpeer"

	charging_code "github.com/free5gc/chf/ccs_diameter/code"
	charging_datatype "github.com/free5gc/chf/ccs_diameter/datatype"
	"github.com/free5gc/chf/internal/verifsim/rt"
	"github.com/free5gc/chf/internal/verifsim/simnet"
)

// DiamOp is one Diameter request of the C07 / C08 engines (server under test: the real
// pkg/abmf or pkg/rf handler behind the real go-diameter server side).
type DiamOp struct {
	Conn      int    `json:"conn"`
	SessionID string `json:"sid"`
	SubType   int32  `json:"sub_type"` // 1 = END_USER_IMSI
	SubData   string `json:"sub_data"`
	RG        uint32 `json:"rg"`
	// CCR
	ReqType int32  `json:"req_type,omitempty"`
	ReqNum  uint32 `json:"req_num,omitempty"`
	Action  int32  `json:"action,omitempty"`
	Amount  uint64 `json:"amount,omitempty"`
	// SUR
	RateSubType   int32  `json:"rate_sub_type,omitempty"`
	MonetaryQuota uint32 `json:"monetary_quota,omitempty"`
	Consumed      uint32 `json:"consumed,omitempty"`
}

type DiamResult struct {
	Answered bool          `json:"answered"`
	WaitNs   int64         `json:"wait_ns"`
	F        simnet.Fields `json:"f"`
	DialErr  string        `json:"dial_err,omitempty"`
	PreDB    string        `json:"-"`
	PostDB   string        `json:"-"`
	PreBal   int64         `json:"pre_bal"`
	PostBal  int64         `json:"post_bal"`
	HasBal   bool          `json:"has_bal"`
}

type diamClient struct {
	cli   *sm.Client
	mux   *sm.StateMachine
	ans   chan *diam.Message
	conns map[int]diam.Conn
	addr  string
}

func newDiamClient(addr string) *diamClient {
	settings := &sm.Settings{
		OriginHost:       datatype.DiameterIdentity("client"),
		OriginRealm:      datatype.DiameterIdentity("go-diameter"),
		VendorID:         13,
		ProductName:      "go-diameter",
		OriginStateID:    datatype.Unsigned32(946684800),
		FirmwareRevision: 1,
		HostIPAddresses:  []datatype.Address{datatype.Address("127.0.0.1")},
	}
	c := &diamClient{mux: sm.New(settings), ans: make(chan *diam.Message, 16), conns: map[int]diam.Conn{}, addr: addr}
	h := diam.HandlerFunc(func(_ diam.Conn, m *diam.Message) {
		select {
		case c.ans <- m:
		default:
		}
	})
	c.mux.Handle("CCA", h)
	c.mux.Handle("SUA", h)
	c.cli = &sm.Client{
		Dict: dict.Default, Handler: c.mux, MaxRetransmits: 3, RetransmitInterval: time.Second,
		EnableWatchdog: false,
		AuthApplicationID: []*diam.AVP{
			diam.NewAVP(avp.AuthApplicationID, avp.Mbit, 0, datatype.Unsigned32(4)),
		},
	}
	return c
}

func (c *diamClient) conn(i int) (diam.Conn, error) {
	if cn, ok := c.conns[i]; ok {
		return cn, nil
	}
	cn, err := c.cli.DialNetworkTLS("tcp", c.addr, "", "")
	if err != nil {
		return nil, err
	}
	c.conns[i] = cn
	return cn, nil
}

func (c *diamClient) drain() {
	for {
		select {
		case <-c.ans:
		default:
			return
		}
	}
}

// RunDiam executes a C07 / C08 scenario inside a bubble.
func RunDiam(sc *Scenario) *History {
	h := &History{Scenario: sc, Credited: map[string]int64{}}
	w, err := Boot(sc)
	if err != nil {
		h.BootErr = err.Error()
		return h
	}
	rt.Begin(rt.Config{Seed: sc.Seed, PollMinNs: sc.Cfg.PollMinNs, PollMaxNs: sc.Cfg.PollMaxNs})
	h.GoBase = runtime.NumGoroutine()
	addr := abmfAddr
	if sc.Prop == "C08" {
		addr = rfAddr
	}
	done := make(chan struct{}, len(sc.Tasks))
	results := make([][]*OpResult, len(sc.Tasks))
	for ti := range sc.Tasks {
		ti := ti
		tk := &sc.Tasks[ti]
		go func() {
			defer func() { done <- struct{}{} }()
			t := rt.NewTask(tk.ID, fmt.Sprintf("peer%d", tk.ID))
			t.Adopt()
			defer rt.Release()
			now0 := rt.Now()
			time.Sleep(time.Duration(rt.AlignAt(rt.SlotOf(tk.ID), now0+tk.StartNs+1) - now0))
			cl := newDiamClient(addr)
			for i := range tk.Ops {
				op := &tk.Ops[i]
				res := &OpResult{Op: *op, Task: tk.ID, StartNs: rt.Now()}
				simnet.SetCurOp(t, op.ID)
				switch op.Kind {
				case "sleep":
					time.Sleep(time.Duration(op.SleepNs))
					res.Done = true
				case "dbset":
					SetQuota(op.Supi, op.RG, op.TopUp)
					res.Done = true
				case "ccr", "sur":
					res.Diam = execDiam(cl, op)
					res.Done = true
				}
				res.EndNs = rt.Now()
				results[ti] = append(results[ti], res)
			}
			for _, cn := range cl.conns {
				cn.Close()
			}
		}()
	}
	for range sc.Tasks {
		<-done
	}
	for _, r := range results {
		h.Ops = append(h.Ops, r...)
	}
	h.SimEndNs = rt.Now()
	for _, a := range sc.Accounts {
		q, ok := Quota(a.Supi, a.RG)
		h.Final = append(h.Final, AcctState{Supi: a.Supi, RG: a.RG, Quota: q, HasQuota: ok})
	}
	h.Msgs = w.Net.Msgs()
	h.Fired = w.Net.Fired()
	h.Tasks = rt.End()
	w.Close()
	time.Sleep(time.Millisecond)
	h.DiamPanics = w.DiamPanics()
	return h
}

func execDiam(cl *diamClient, op *Op) *DiamResult {
	d := op.D
	r := &DiamResult{}
	supi := "imsi-" + d.SubData
	r.PreDB = DBDump()
	r.PreBal, r.HasBal = Quota(supi, int32(d.RG))
	defer func() {
		r.PostDB = DBDump()
		r.PostBal, _ = Quota(supi, int32(d.RG))
	}()
	cn, err := cl.conn(d.Conn)
	if err != nil {
		r.DialErr = err.Error()
		return r
	}
	meta, _ := smpeer.FromContext(cn.Context())
	cl.drain()
	var msg *diam.Message
	sub := &charging_datatype.SubscriptionId{
		SubscriptionIdType: charging_datatype.SubscriptionIdType(d.SubType),
		SubscriptionIdData: datatype.UTF8String(d.SubData),
	}
	if op.Kind == "ccr" {
		ccr := &charging_datatype.AccountDebitRequest{
			SessionId:       datatype.UTF8String(d.SessionID),
			OriginHost:      datatype.DiameterIdentity("client"),
			OriginRealm:     datatype.DiameterIdentity("go-diameter"),
			EventTimestamp:  datatype.Time(time.Now()),
			SubscriptionId:  sub,
			UserName:        datatype.OctetString("CHF"),
			CcRequestNumber: datatype.Unsigned32(d.ReqNum),
			CcRequestType:   charging_datatype.CcRequestType(d.ReqType),
			RequestedAction: charging_datatype.RequestedAction(d.Action),
			MultipleServicesCreditControl: &charging_datatype.MultipleServicesCreditControl{
				RatingGroup:          datatype.Unsigned32(d.RG),
				RequestedServiceUnit: &charging_datatype.RequestedServiceUnit{CCTotalOctets: datatype.Unsigned64(d.Amount)},
				UsedServiceUnit:      &charging_datatype.UsedServiceUnit{CCTotalOctets: datatype.Unsigned64(d.Amount)},
			},
		}
		if meta != nil {
			ccr.DestinationRealm = datatype.DiameterIdentity(meta.OriginRealm)
			ccr.DestinationHost = datatype.DiameterIdentity(meta.OriginHost)
		}
		msg = diam.NewRequest(charging_code.ABMF_CreditControl, charging_code.Re_interface, dict.Default)
		if err := msg.Marshal(ccr); err != nil {
			r.DialErr = "marshal: " + err.Error()
			return r
		}
	} else {
		sur := &charging_datatype.ServiceUsageRequest{
			SessionId:      datatype.UTF8String(d.SessionID),
			OriginHost:     datatype.DiameterIdentity("client"),
			OriginRealm:    datatype.DiameterIdentity("go-diameter"),
			ActualTime:     datatype.Time(time.Now()),
			SubscriptionId: sub,
			UserName:       datatype.OctetString("CHF"),
			ServiceRating: &charging_datatype.ServiceRating{
				ServiceIdentifier: datatype.Unsigned32(d.RG),
				MonetaryQuota:     datatype.Unsigned32(d.MonetaryQuota),
				ConsumedUnits:     datatype.Unsigned32(d.Consumed),
				RequestSubType:    charging_datatype.RequestSubType(d.RateSubType),
			},
		}
		if meta != nil {
			sur.DestinationRealm = datatype.DiameterIdentity(meta.OriginRealm)
			sur.DestinationHost = datatype.DiameterIdentity(meta.OriginHost)
		}
		msg = diam.NewRequest(charging_code.ServiceUsageMessage, charging_code.Re_interface, dict.Default)
		if err := msg.Marshal(sur); err != nil {
			r.DialErr = "marshal: " + err.Error()
			return r
		}
	}
	t0 := rt.Now()
	if _, err := msg.WriteTo(cn); err != nil {
		// the server dropped this connection earlier: use a fresh one
		delete(cl.conns, d.Conn)
		cn, err = cl.conn(d.Conn)
		if err != nil {
			r.DialErr = err.Error()
			return r
		}
		if _, err = msg.WriteTo(cn); err != nil {
			r.DialErr = "write: " + err.Error()
			return r
		}
	}
	select {
	case m := <-cl.ans:
		r.Answered = true
		if raw, err := m.Serialize(); err == nil && len(raw) >= 20 {
			r.F = simnet.ParseFields(raw[20:])
		}
	case <-time.After(10 * time.Second):
		// a connection that produced no answer is not reused
		cn.Close()
		delete(cl.conns, d.Conn)
	}
	r.WaitNs = rt.Now() - t0
	return r
}

var _ = fmt.Sprint
