package verifsim

import (
	"bufio"
	"fmt"
	"io"
	"net"
	"sort"
	"strings"
	"sync"
	"time"

	"github.com/free5gc/chf/internal/verifsim/rt"
	"github.com/free5gc/chf/internal/verifsim/simnet"
)

// The billing domain's FTP server (a stub): enough of RFC 959 / 2428 for the real
// jlaffaye/ftp client that internal/cgf drives — USER PASS FEAT TYPE EPSV STOR LIST NOOP
// RNFR RNTO QUIT — over the simulated network, with the behaviours a real server shows between two
// CDR transfers: idle time-out of the control connection, restart (all control
// connections reset at once), and whatever fault rules the scenario addresses to peer "cgf".

const (
	cgfHost     = "10.0.0.3"
	cgfCtrlAddr = "10.0.0.3:2121"
)

// FTPEvent is one thing the billing domain saw.
type FTPEvent struct {
	At   int64  `json:"at"`
	Sess int    `json:"sess"`
	What string `json:"what"` // login | stor | list | noop | quit | idle-timeout | restart | lost
	Name string `json:"name,omitempty"`
	Size int    `json:"size,omitempty"`
	Sum  uint64 `json:"sum,omitempty"`
}

type FTPServer struct {
	nw     *simnet.Net
	idleNs int64

	mu       sync.Mutex
	files    map[string][]byte
	events   []FTPEvent
	nextPort int
	nextSess int
	ctrl     map[int]net.Conn
	ln       net.Listener
}

func startFTPServer(nw *simnet.Net, idleNs int64) (*FTPServer, error) {
	s := &FTPServer{nw: nw, idleNs: idleNs, files: map[string][]byte{}, ctrl: map[int]net.Conn{}, nextPort: 2200}
	nw.NamePeer(cgfCtrlAddr, "cgf")
	nw.RawPeer("cgf")
	ln, err := nw.Listen("tcp", cgfCtrlAddr)
	if err != nil {
		return nil, err
	}
	s.ln = ln
	go s.acceptLoop()
	return s, nil
}

func (s *FTPServer) ev(e FTPEvent) {
	e.At = rt.Now()
	s.mu.Lock()
	s.events = append(s.events, e)
	s.mu.Unlock()
}

// Events returns what the server saw, in order.
func (s *FTPServer) Events() []FTPEvent {
	s.mu.Lock()
	defer s.mu.Unlock()
	out := append([]FTPEvent(nil), s.events...)
	// sessions log concurrently: events of one simulated instant are ordered by content, not by arrival
	sort.SliceStable(out, func(i, j int) bool {
		if out[i].At != out[j].At {
			return out[i].At < out[j].At
		}
		if out[i].Sess != out[j].Sess {
			return out[i].Sess < out[j].Sess
		}
		return out[i].What < out[j].What
	})
	return out
}

// Restart is the billing domain restarting: every control connection is reset.
func (s *FTPServer) Restart() {
	s.mu.Lock()
	ids := make([]int, 0, len(s.ctrl))
	for id := range s.ctrl {
		ids = append(ids, id)
	}
	sort.Ints(ids)
	conns := make([]net.Conn, 0, len(ids))
	for _, id := range ids {
		conns = append(conns, s.ctrl[id])
		delete(s.ctrl, id)
	}
	s.mu.Unlock()
	for _, c := range conns {
		c.Close()
	}
	s.ev(FTPEvent{Sess: -1, What: "restart", Size: len(conns)})
}

func (s *FTPServer) acceptLoop() {
	for {
		c, err := s.ln.Accept()
		if err != nil {
			return
		}
		s.mu.Lock()
		id := s.nextSess
		s.nextSess++
		s.ctrl[id] = c
		s.mu.Unlock()
		go s.session(id, c)
	}
}

type ftpLine struct {
	s   string
	err error
}

func (s *FTPServer) session(id int, c net.Conn) {
	defer func() {
		c.Close()
		s.mu.Lock()
		delete(s.ctrl, id)
		s.mu.Unlock()
	}()
	reply := func(format string, a ...interface{}) bool {
		_, err := io.WriteString(c, fmt.Sprintf(format, a...)+"\r\n")
		return err == nil
	}
	lines := make(chan ftpLine, 4)
	go func() {
		br := bufio.NewReader(c)
		for {
			l, err := br.ReadString('\n')
			if err != nil {
				lines <- ftpLine{err: err}
				return
			}
			lines <- ftpLine{s: strings.TrimRight(l, "\r\n")}
		}
	}()
	if !reply("220 billing domain ready") {
		return
	}
	var dataLn net.Listener
	defer func() {
		if dataLn != nil {
			dataLn.Close()
		}
	}()
	user, authed := "", false
	renameFrom := ""
	for {
		var ln ftpLine
		if s.idleNs > 0 {
			tm := time.NewTimer(time.Duration(s.idleNs))
			select {
			case ln = <-lines:
				tm.Stop()
			case <-tm.C:
				reply("421 idle timeout, closing control connection")
				s.ev(FTPEvent{Sess: id, What: "idle-timeout"})
				return
			}
		} else {
			ln = <-lines
		}
		if ln.err != nil {
			s.ev(FTPEvent{Sess: id, What: "lost"})
			return
		}
		cmd, arg := ln.s, ""
		if i := strings.IndexByte(ln.s, ' '); i >= 0 {
			cmd, arg = ln.s[:i], ln.s[i+1:]
		}
		switch strings.ToUpper(cmd) {
		case "USER":
			user = arg
			reply("331 password required")
		case "PASS":
			if user == "admin" && arg == "free5gc" {
				authed = true
				s.ev(FTPEvent{Sess: id, What: "login"})
				reply("230 logged in")
			} else {
				reply("530 login incorrect")
			}
		case "FEAT":
			reply("211-Extensions supported:\r\n EPSV\r\n211 END")
		case "TYPE":
			reply("200 type set")
		case "NOOP":
			s.ev(FTPEvent{Sess: id, What: "noop"})
			reply("200 ok")
		case "QUIT":
			s.ev(FTPEvent{Sess: id, What: "quit"})
			reply("221 bye")
			return
		case "EPSV":
			if !authed {
				reply("530 not logged in")
				continue
			}
			if dataLn != nil {
				dataLn.Close()
				dataLn = nil
			}
			s.mu.Lock()
			port := s.nextPort
			s.nextPort++
			s.mu.Unlock()
			addr := fmt.Sprintf("%s:%d", cgfHost, port)
			s.nw.NamePeer(addr, "cgf")
			l, err := s.nw.Listen("tcp", addr)
			if err != nil {
				reply("425 cannot open passive port")
				continue
			}
			dataLn = l
			reply("229 Entering Extended Passive Mode (|||%d|)", port)
		case "RNFR":
			s.mu.Lock()
			_, ok := s.files[arg]
			s.mu.Unlock()
			if !authed || !ok {
				reply("550 no such file")
				continue
			}
			renameFrom = arg
			reply("350 ready for RNTO")
		case "RNTO":
			if renameFrom == "" {
				reply("503 RNFR first")
				continue
			}
			s.mu.Lock()
			s.files[arg] = s.files[renameFrom]
			delete(s.files, renameFrom)
			s.mu.Unlock()
			s.ev(FTPEvent{Sess: id, What: "rename", Name: arg})
			renameFrom = ""
			reply("250 renamed")
		case "PASV":
			reply("502 use EPSV")
		case "STOR", "LIST":
			if !authed {
				reply("530 not logged in")
				continue
			}
			if dataLn == nil {
				reply("425 use EPSV first")
				continue
			}
			dc := acceptWithin(dataLn, 5*time.Second)
			dataLn.Close()
			dataLn = nil
			if dc == nil {
				reply("425 no data connection")
				continue
			}
			if !reply("150 ok") {
				dc.Close()
				return
			}
			if strings.ToUpper(cmd) == "STOR" {
				b, err := io.ReadAll(dc)
				dc.Close()
				if err != nil {
					reply("426 transfer aborted")
					continue
				}
				s.mu.Lock()
				s.files[arg] = b
				s.mu.Unlock()
				s.ev(FTPEvent{Sess: id, What: "stor", Name: arg, Size: len(b), Sum: rt.Hash(0x5107, bytesKey(b)...)})
				reply("226 transfer complete")
			} else {
				s.mu.Lock()
				names := make([]string, 0, len(s.files))
				for n := range s.files {
					names = append(names, n)
				}
				sort.Strings(names)
				var sb strings.Builder
				for _, n := range names {
					fmt.Fprintf(&sb, "-rw-r--r-- 1 ftp ftp %12d Jan 01 00:00 %s\r\n", len(s.files[n]), n)
				}
				s.mu.Unlock()
				io.WriteString(dc, sb.String())
				dc.Close()
				s.ev(FTPEvent{Sess: id, What: "list", Size: len(names)})
				reply("226 transfer complete")
			}
		default:
			reply("502 command not implemented")
		}
	}
}

func acceptWithin(l net.Listener, d time.Duration) net.Conn {
	type res struct{ c net.Conn }
	ch := make(chan res, 1)
	go func() {
		c, err := l.Accept()
		if err != nil {
			ch <- res{}
			return
		}
		ch <- res{c}
	}()
	tm := time.NewTimer(d)
	defer tm.Stop()
	select {
	case r := <-ch:
		return r.c
	case <-tm.C:
		l.Close()
		if r := <-ch; r.c != nil {
			r.c.Close()
		}
		return nil
	}
}

func bytesKey(b []byte) []uint64 {
	out := make([]uint64, 0, len(b)/8+2)
	out = append(out, uint64(len(b)))
	var acc uint64
	for i, x := range b {
		acc = acc<<8 | uint64(x)
		if i%8 == 7 {
			out = append(out, acc)
			acc = 0
		}
	}
	return append(out, acc)
}
