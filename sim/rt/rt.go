// Package rt is the run-time support that instrumented CHF code calls in the
// simulated build: simulation-aware locks, the simulated disk, yield points, the
// task registry and the keyed ("functional") PRNG.
//
// It is overlaid as github.com/free5gc/chf/internal/verifsim/rt and imports nothing
// from the CHF.  When no run is active every primitive degrades to its ordinary
// behaviour (real blocking lock, no yield, real file system is NOT touched: files stay
// in memory).
package rt

import (
	"bytes"
	"io"
	"fmt"
	"io/fs"
	"os"
	"path"
	"runtime"
	"sort"
	"strconv"
	"strings"
	"sync"
	"sync/atomic"
	"syscall"
	"time"
)

// ---------------------------------------------------------------- keyed PRNG

func mix(x uint64) uint64 {
	x += 0x9e3779b97f4a7c15
	x = (x ^ (x >> 30)) * 0xbf58476d1ce4e5b9
	x = (x ^ (x >> 27)) * 0x94d049bb133111eb
	return x ^ (x >> 31)
}

// OnBoot registers a function that re-creates a package-level object of the system under
// test at the start of every simulated run (inserted by the instrumenter for channels,
// timers, tickers, condition variables and contexts made by package initialisers: a freshly
// started process would make them anew, and testing/synctest ties them to the bubble they
// were made in).
var bootHooks []func()

func OnBoot(f func()) { bootHooks = append(bootHooks, f) }

// RunBootHooks is called by the harness inside the bubble before the system starts.
func RunBootHooks() {
	for _, f := range bootHooks {
		f()
	}
}

// Hash derives a 64-bit value from a seed and a list of keys; the same inputs always
// give the same output and nothing is consumed from any shared stream.
func Hash(seed uint64, keys ...uint64) uint64 {
	h := mix(seed ^ 0x5851f42d4c957f2d)
	for _, k := range keys {
		h = mix(h ^ mix(k))
	}
	return h
}

// HashStr folds a string into a key.
func HashStr(s string) uint64 {
	h := uint64(14695981039346656037)
	for i := 0; i < len(s); i++ {
		h ^= uint64(s[i])
		h *= 1099511628211
	}
	return h
}

// Rng is a small splitmix64 stream for generators (never shared between goroutines).
type Rng struct{ s uint64 }

func NewRng(seed uint64, keys ...uint64) *Rng { return &Rng{s: Hash(seed, keys...)} }
func (r *Rng) U64() uint64                    { r.s += 0x9e3779b97f4a7c15; return mix(r.s) }
func (r *Rng) Intn(n int) int {
	if n <= 0 {
		return 0
	}
	return int(r.U64() % uint64(n))
}
func (r *Rng) Range(lo, hi int64) int64 { // inclusive
	if hi <= lo {
		return lo
	}
	return lo + int64(r.U64()%uint64(hi-lo+1))
}
func (r *Rng) Chance(permille int) bool { return int(r.U64()%1000) < permille }
func (r *Rng) Pick(n int) int           { return r.Intn(n) }

// ---------------------------------------------------------------- run state

// Config of the active run (set by the harness before tasks start).
type Config struct {
	Seed          uint64
	YieldPermille int   // probability that a yield point sleeps
	YieldMaxNs    int64 // upper bound of a yield sleep
	PollMinNs     int64 // lock poll delay range
	PollMaxNs     int64
}

type Task struct {
	ID     int
	Name   string
	ctr    uint64 // decisions taken so far (only touched by the task's active goroutine)
	Yields int64
	Locks  int64
	Polls  int64
	Trace  []Event
}

type Event struct {
	At   int64  `json:"at"` // simulated ns since run start
	Task int    `json:"task"`
	Seq  uint64 `json:"seq"`
	What string `json:"what"`
}

var (
	active  atomic.Bool
	stopped atomic.Bool
	cfg     Config
	epoch   time.Time

	regMu sync.RWMutex
	reg   = map[uint64]*Task{}
	tasks []*Task

	anonPolls atomic.Int64
	lockSites sync.Map
)

// Begin starts a run.  Must be called inside the bubble before any task.
func Begin(c Config) {
	if c.PollMinNs <= 0 {
		c.PollMinNs = 20_000
	}
	if c.PollMaxNs < c.PollMinNs {
		c.PollMaxNs = c.PollMinNs * 20
	}
	cfg = c
	epoch = time.Now()
	regMu.Lock()
	reg = map[uint64]*Task{}
	tasks = nil
	regMu.Unlock()
	anonPolls.Store(0)
	stopped.Store(false)
	active.Store(true)
}

// End finishes a run and returns the tasks (with their traces and counters).
func End() []*Task {
	active.Store(false)
	regMu.Lock()
	defer regMu.Unlock()
	out := tasks
	tasks = nil
	reg = map[uint64]*Task{}
	return out
}

func Active() bool  { return active.Load() }
func Stop()         { stopped.Store(true) }
func Stopped() bool { return stopped.Load() }
func Seed() uint64  { return cfg.Seed }
func AnonPolls() int64 {
	return anonPolls.Load()
}

// Now returns simulated nanoseconds since Begin.
func Now() int64 { return int64(time.Since(epoch)) }

// Goid returns the current goroutine's id.
func Goid() uint64 {
	var buf [64]byte
	n := runtime.Stack(buf[:], false)
	// "goroutine 123 ["
	b := buf[:n]
	b = b[len("goroutine "):]
	i := bytes.IndexByte(b, ' ')
	if i < 0 {
		return 0
	}
	id, _ := strconv.ParseUint(string(b[:i]), 10, 64)
	return id
}

// NewTask creates a task; Adopt binds the calling goroutine to it.
func NewTask(id int, name string) *Task {
	t := &Task{ID: id, Name: name}
	regMu.Lock()
	tasks = append(tasks, t)
	regMu.Unlock()
	return t
}

// Adopt registers the calling goroutine as executing on behalf of t.
func (t *Task) Adopt() {
	g := Goid()
	regMu.Lock()
	reg[g] = t
	regMu.Unlock()
}

// Release removes the calling goroutine from the registry.
func Release() {
	g := Goid()
	regMu.Lock()
	delete(reg, g)
	regMu.Unlock()
}

// Current returns the task of the calling goroutine, or nil.
func Current() *Task {
	g := Goid()
	regMu.RLock()
	t := reg[g]
	regMu.RUnlock()
	return t
}

// Log appends an event to the task's private trace.
func (t *Task) Log(what string) {
	t.ctr++
	t.Trace = append(t.Trace, Event{At: Now(), Task: t.ID, Seq: t.ctr, What: what})
}

func (t *Task) next() uint64 { t.ctr++; return t.ctr }

// ---------------------------------------------------------------- wake-up slots
//
// Two goroutines that become runnable at the same simulated nanosecond are ordered by the Go
// scheduler, not by the seed.  To keep that from happening between the parties that contend
// for the system's shared state, every timed wake-up of a task (lock barrier, lock poll,
// yield, start) and every delivery on a connection is moved up to the next instant of a
// residue class modulo SlotSpan that belongs to that task / connection alone.

const SlotSpan = 512

// SlotOf maps a task id to its residue class.
func SlotOf(taskID int) int64 {
	switch {
	case taskID < 0:
		return SlotSpan - 1
	case taskID < 200:
		return int64(taskID)
	case taskID >= 1000000:
		return 200 + int64(taskID-1000000)%50
	}
	return 250 + int64(taskID)%6
}

// RawSlot is the residue class of a non-Diameter (shared) connection.
func RawSlot(conn int) int64 { return 256 + int64(conn)%250 }

// AlignAt returns the first instant >= at that lies in the residue class.
func AlignAt(slot, at int64) int64 {
	return at + (slot-at%SlotSpan+SlotSpan)%SlotSpan
}

func (t *Task) sleepAligned(d int64) {
	now := Now()
	time.Sleep(time.Duration(AlignAt(SlotOf(t.ID), now+d) - now))
}

// SleepAligned sleeps at least d and wakes in the calling task's residue class.
func SleepAligned(d int64) {
	if t := Current(); t != nil {
		t.sleepAligned(d)
		return
	}
	time.Sleep(time.Duration(d))
}

// Sleep sleeps simulated time.
func Sleep(ns int64) {
	if ns > 0 {
		time.Sleep(time.Duration(ns))
	}
}

// ---------------------------------------------------------------- locks

func pollDelay(t *Task, attempt int) int64 {
	var h uint64
	if t != nil {
		h = Hash(cfg.Seed, 0x10c4, uint64(t.ID), t.next(), uint64(attempt))
	} else {
		h = Hash(cfg.Seed, 0x10c5, uint64(attempt))
	}
	span := uint64(cfg.PollMaxNs - cfg.PollMinNs + 1)
	d := cfg.PollMinNs + int64(h%span)
	// exponential back-off: a waiter that has polled many times is waiting for something
	// long (a timeout, a wedge); simulated hand-over latency grows, real CPU cost stays low
	if attempt > 8 {
		shift := uint((attempt - 8) / 4)
		if shift > 10 {
			shift = 10
		}
		d <<= shift
		if d > 50_000_000 {
			d = 50_000_000 + int64(h%1_000_000)
		}
	}
	return d
}

// Acquire takes a lock through try(), waiting in simulated time.
func Acquire(try func() bool, block func()) {
	if !active.Load() {
		block()
		return
	}
	t := Current()
	if t != nil {
		t.Locks++
		// Quiescence barrier: a distinct, identity-derived instant per acquisition, so
		// that which of two contenders comes first is decided by the seed.
		// (scaled by the slot span so that the seed, not the residue class, decides the order)
		t.sleepAligned(int64(2+Hash(cfg.Seed, 0x10c3, uint64(t.ID), t.next())%97) * SlotSpan)
	} else {
		time.Sleep(time.Duration(1))
	}
	for attempt := 1; !try(); attempt++ {
		if stopped.Load() {
			runtime.Goexit()
		}
		if t != nil {
			t.Polls++
		} else {
			anonPolls.Add(1)
		}
		if t != nil {
			t.sleepAligned(pollDelay(t, attempt))
		} else {
			time.Sleep(time.Duration(pollDelay(t, attempt)))
		}
	}
}

// LockWait is installed as go-diameter's SimLockWait (called between failed TryLocks).
func LockWait(attempt int) {
	if !active.Load() {
		runtime.Gosched()
		return
	}
	if attempt == 0 {
		Barrier()
		return
	}
	if stopped.Load() {
		runtime.Goexit()
	}
	t := Current()
	if t != nil {
		t.Polls++
	} else {
		anonPolls.Add(1)
	}
	if t != nil {
		t.sleepAligned(pollDelay(t, attempt))
		return
	}
	time.Sleep(time.Duration(pollDelay(t, attempt)))
}

// Barrier sleeps a few identity-derived simulated nanoseconds: everything else that is
// runnable at this instant runs until it parks before the caller continues.
func Barrier() {
	if !active.Load() {
		return
	}
	if t := Current(); t != nil {
		t.sleepAligned(int64(2+Hash(cfg.Seed, 0xba44, uint64(t.ID), t.next())%97) * SlotSpan)
		return
	}
	time.Sleep(time.Duration(1))
}

// Pool replaces sync.Pool in instrumented code.  sync.Pool hands out a pooled or a new object
// depending on the P the caller runs on and on garbage collections — nondeterminism the
// simulator does not control.  This pool makes the same legal choices from the seed: Get returns
// the most recently pooled object 7 times out of 8 (when there is one), otherwise a new one;
// pools are emptied at the start of every run.
type Pool struct {
	New func() any

	mu    sync.Mutex
	items []any
	gets  uint64
	reg   bool
}

var (
	poolsMu sync.Mutex
	pools   []*Pool
)

func (p *Pool) register() {
	if !p.reg {
		p.reg = true
		poolsMu.Lock()
		pools = append(pools, p)
		poolsMu.Unlock()
	}
}

func (p *Pool) Get() any {
	p.mu.Lock()
	p.register()
	p.gets++
	var x any
	if n := len(p.items); n > 0 && Hash(cfg.Seed, 0x9001, p.gets)%8 != 0 {
		x = p.items[n-1]
		p.items = p.items[:n-1]
	}
	p.mu.Unlock()
	if x == nil && p.New != nil {
		x = p.New()
	}
	return x
}

func (p *Pool) Put(x any) {
	if x == nil {
		return
	}
	p.mu.Lock()
	p.register()
	p.items = append(p.items, x)
	p.mu.Unlock()
}

// ResetPools empties every pool (start of a run: a freshly started process has empty pools).
func ResetPools() {
	poolsMu.Lock()
	ps := append([]*Pool(nil), pools...)
	poolsMu.Unlock()
	for _, p := range ps {
		p.mu.Lock()
		p.items, p.gets = nil, 0
		p.mu.Unlock()
	}
}

// Mutex replaces sync.Mutex in instrumented code.
type Mutex struct{ mu sync.Mutex }

func (m *Mutex) Lock()         { Acquire(m.mu.TryLock, m.mu.Lock) }
func (m *Mutex) Unlock()       { m.mu.Unlock() }
func (m *Mutex) TryLock() bool { return m.mu.TryLock() }

// RWMutex replaces sync.RWMutex in instrumented code.
type RWMutex struct{ mu sync.RWMutex }

func (m *RWMutex) Lock()          { Acquire(m.mu.TryLock, m.mu.Lock) }
func (m *RWMutex) Unlock()        { m.mu.Unlock() }
func (m *RWMutex) RLock()         { Acquire(m.mu.TryRLock, m.mu.RLock) }
func (m *RWMutex) RUnlock()       { m.mu.RUnlock() }
func (m *RWMutex) TryLock() bool  { return m.mu.TryLock() }
func (m *RWMutex) TryRLock() bool { return m.mu.TryRLock() }
func (m *RWMutex) RLocker() sync.Locker {
	return (*rlocker)(m)
}

type rlocker RWMutex

func (r *rlocker) Lock()   { (*RWMutex)(r).RLock() }
func (r *rlocker) Unlock() { (*RWMutex)(r).RUnlock() }

// ---------------------------------------------------------------- yields

// Yield is inserted before statements of the instrumented packages.  It only does
// something on a registered task goroutine while a run with YieldPermille > 0 is active.
func Yield(site uint32) {
	if !active.Load() || cfg.YieldPermille == 0 {
		return
	}
	t := Current()
	if t == nil {
		return
	}
	if stopped.Load() {
		runtime.Goexit()
	}
	h := Hash(cfg.Seed, 0x71e1d, uint64(t.ID), t.next(), uint64(site))
	if int(h%1000) >= cfg.YieldPermille {
		return
	}
	t.Yields++
	max := uint64(cfg.YieldMaxNs)
	if max < 1 {
		max = 1
	}
	t.sleepAligned(int64(1 + (h>>20)%max))
}

// ---------------------------------------------------------------- disk

type Write struct {
	At   int64  `json:"at"`
	Task int    `json:"task"`
	Path string `json:"path"`
	Data []byte `json:"-"`
	Kind string `json:"kind"` // whole (os.WriteFile, rename) | write (transient) | sync | close
}

var (
	diskMu  sync.Mutex
	files   = map[string][]byte{}
	journal []Write
)

func DiskReset() {
	diskMu.Lock()
	files = map[string][]byte{}
	journal = nil
	tempCtr = 0
	diskMu.Unlock()
}

// WriteFile replaces os.WriteFile in instrumented code.
func WriteFile(name string, data []byte, perm fs.FileMode) error {
	tid := -1
	var at int64
	if active.Load() {
		if t := Current(); t != nil {
			tid = t.ID
		}
		at = Now()
	}
	// the simulated disk has exactly one directory, /tmp (where the CHF keeps its CDR
	// files); like the real file system it refuses paths below directories that do not exist
	if err := checkPath(name); err != nil {
		return err
	}
	cp := append([]byte(nil), data...)
	diskMu.Lock()
	files[name] = cp
	journal = append(journal, Write{At: at, Task: tid, Path: name, Data: cp, Kind: "whole"})
	diskMu.Unlock()
	return nil
}

// ---- file handles (os.OpenFile / os.Create and friends in instrumented code)

// File replaces *os.File for files opened by instrumented code.
type File struct {
	name   string
	flag   int
	off    int64
	closed bool
}

func checkPath(name string) error {
	if clean := path.Clean(name); path.Dir(clean) != "/tmp" || strings.ContainsRune(name, 0) || path.Base(clean) == "tmp" {
		return &fs.PathError{Op: "open", Path: name, Err: syscall.ENOENT}
	}
	if len(path.Base(name)) > 255 {
		return &fs.PathError{Op: "open", Path: name, Err: syscall.ENAMETOOLONG}
	}
	return nil
}

// journalLocked records the current content of name (caller holds diskMu).
func journalLocked(name, kind string) {
	tid := -1
	var at int64
	if active.Load() {
		if t := Current(); t != nil {
			tid = t.ID
		}
		at = Now()
	}
	journal = append(journal, Write{At: at, Task: tid, Path: name, Data: append([]byte(nil), files[name]...), Kind: kind})
}

// OpenFile replaces os.OpenFile.
func OpenFile(name string, flag int, perm fs.FileMode) (*File, error) {
	if err := checkPath(name); err != nil {
		return nil, err
	}
	diskMu.Lock()
	defer diskMu.Unlock()
	_, exists := files[name]
	switch {
	case !exists && flag&os.O_CREATE == 0:
		return nil, &fs.PathError{Op: "open", Path: name, Err: syscall.ENOENT}
	case exists && flag&os.O_CREATE != 0 && flag&os.O_EXCL != 0:
		return nil, &fs.PathError{Op: "open", Path: name, Err: syscall.EEXIST}
	}
	if !exists {
		files[name] = []byte{}
	}
	if flag&os.O_TRUNC != 0 && flag&(os.O_WRONLY|os.O_RDWR) != 0 {
		files[name] = []byte{}
	}
	return &File{name: name, flag: flag}, nil
}

// Create replaces os.Create.
func Create(name string) (*File, error) {
	return OpenFile(name, os.O_RDWR|os.O_CREATE|os.O_TRUNC, 0o666)
}

// Open replaces os.Open.
func Open(name string) (*File, error) { return OpenFile(name, os.O_RDONLY, 0) }

func (f *File) Name() string { return f.name }

func (f *File) Write(b []byte) (int, error) {
	if f.closed {
		return 0, fs.ErrClosed
	}
	if f.flag&(os.O_WRONLY|os.O_RDWR) == 0 {
		return 0, &fs.PathError{Op: "write", Path: f.name, Err: syscall.EBADF}
	}
	diskMu.Lock()
	defer diskMu.Unlock()
	cur := files[f.name]
	if f.flag&os.O_APPEND != 0 {
		f.off = int64(len(cur))
	}
	end := f.off + int64(len(b))
	if int64(len(cur)) < end {
		cur = append(cur, make([]byte, end-int64(len(cur)))...)
	}
	copy(cur[f.off:end], b)
	files[f.name] = cur
	f.off = end
	journalLocked(f.name, "write") // a transient state: more writes may follow before the file is consistent
	return len(b), nil
}

func (f *File) WriteString(s string) (int, error) { return f.Write([]byte(s)) }

func (f *File) WriteAt(b []byte, off int64) (int, error) {
	save := f.off
	f.off = off
	n, err := f.Write(b)
	f.off = save
	return n, err
}

func (f *File) Read(b []byte) (int, error) {
	if f.closed {
		return 0, fs.ErrClosed
	}
	diskMu.Lock()
	defer diskMu.Unlock()
	cur := files[f.name]
	if f.off >= int64(len(cur)) {
		return 0, io.EOF
	}
	n := copy(b, cur[f.off:])
	f.off += int64(n)
	return n, nil
}

func (f *File) Seek(offset int64, whence int) (int64, error) {
	diskMu.Lock()
	defer diskMu.Unlock()
	switch whence {
	case io.SeekStart:
		f.off = offset
	case io.SeekCurrent:
		f.off += offset
	case io.SeekEnd:
		f.off = int64(len(files[f.name])) + offset
	}
	return f.off, nil
}

func (f *File) Truncate(size int64) error {
	diskMu.Lock()
	defer diskMu.Unlock()
	cur := files[f.name]
	if int64(len(cur)) > size {
		cur = cur[:size]
	} else {
		cur = append(cur, make([]byte, size-int64(len(cur)))...)
	}
	files[f.name] = cur
	journalLocked(f.name, "write")
	return nil
}

func (f *File) Sync() error {
	diskMu.Lock()
	defer diskMu.Unlock()
	journalLocked(f.name, "sync")
	return nil
}

func (f *File) Close() error {
	if f.closed {
		return fs.ErrClosed
	}
	f.closed = true
	diskMu.Lock()
	defer diskMu.Unlock()
	if f.flag&(os.O_WRONLY|os.O_RDWR) != 0 {
		journalLocked(f.name, "close")
	}
	return nil
}

// Remove replaces os.Remove.
func Remove(name string) error {
	diskMu.Lock()
	defer diskMu.Unlock()
	if _, ok := files[name]; !ok {
		return &fs.PathError{Op: "remove", Path: name, Err: syscall.ENOENT}
	}
	delete(files, name)
	return nil
}

// Rename replaces os.Rename.
func Rename(oldpath, newpath string) error {
	if err := checkPath(newpath); err != nil {
		return err
	}
	diskMu.Lock()
	defer diskMu.Unlock()
	b, ok := files[oldpath]
	if !ok {
		return &fs.PathError{Op: "rename", Path: oldpath, Err: syscall.ENOENT}
	}
	delete(files, oldpath)
	files[newpath] = b
	journalLocked(newpath, "whole")
	return nil
}

// CreateTemp replaces os.CreateTemp: the random part of the name is a counter (a function of the
// run, not of the process).
func CreateTemp(dir, pattern string) (*File, error) {
	if dir == "" {
		dir = "/tmp"
	}
	prefix, suffix := pattern, ""
	if i := strings.LastIndexByte(pattern, '*'); i >= 0 {
		prefix, suffix = pattern[:i], pattern[i+1:]
	}
	for try := 0; try < 10000; try++ {
		diskMu.Lock()
		tempCtr++
		n := tempCtr
		diskMu.Unlock()
		name := path.Join(dir, fmt.Sprintf("%s%09d%s", prefix, n, suffix))
		f, err := OpenFile(name, os.O_RDWR|os.O_CREATE|os.O_EXCL, 0o600)
		if err == nil {
			return f, nil
		}
		if pe, ok := err.(*fs.PathError); !ok || pe.Err != syscall.EEXIST {
			return nil, err
		}
	}
	return nil, &fs.PathError{Op: "createtemp", Path: path.Join(dir, pattern), Err: syscall.EEXIST}
}

var tempCtr int

type fileInfo struct {
	name string
	size int64
}

func (i fileInfo) Name() string       { return i.name }
func (i fileInfo) Size() int64        { return i.size }
func (i fileInfo) Mode() fs.FileMode  { return 0o644 }
func (i fileInfo) ModTime() time.Time { return time.Time{} }
func (i fileInfo) IsDir() bool        { return false }
func (i fileInfo) Sys() any           { return nil }

type dirInfo struct{ fileInfo }

func (dirInfo) IsDir() bool       { return true }
func (dirInfo) Mode() fs.FileMode { return fs.ModeDir | 0o777 }

// Stat replaces os.Stat / os.Lstat.
func Stat(name string) (fs.FileInfo, error) {
	if c := path.Clean(name); c == "/tmp" || c == "/" {
		return dirInfo{fileInfo{name: path.Base(c)}}, nil
	}
	diskMu.Lock()
	defer diskMu.Unlock()
	b, ok := files[name]
	if !ok {
		return nil, &fs.PathError{Op: "stat", Path: name, Err: syscall.ENOENT}
	}
	return fileInfo{name: path.Base(name), size: int64(len(b))}, nil
}

func Lstat(name string) (fs.FileInfo, error) { return Stat(name) }

// Chmod replaces os.Chmod (permissions are not modelled).
func Chmod(name string, mode fs.FileMode) error {
	_, err := Stat(name)
	if err != nil {
		err.(*fs.PathError).Op = "chmod"
	}
	return err
}

// MkdirAll / Mkdir: the simulated disk has the directories / and /tmp only.
func MkdirAll(p string, perm fs.FileMode) error {
	if c := path.Clean(p); c == "/tmp" || c == "/" {
		return nil
	}
	return &fs.PathError{Op: "mkdir", Path: p, Err: syscall.EACCES}
}

func Mkdir(p string, perm fs.FileMode) error {
	if c := path.Clean(p); c == "/tmp" || c == "/" {
		return &fs.PathError{Op: "mkdir", Path: p, Err: syscall.EEXIST}
	}
	return &fs.PathError{Op: "mkdir", Path: p, Err: syscall.EACCES}
}

func (f *File) Chmod(mode fs.FileMode) error {
	if f.closed {
		return fs.ErrClosed
	}
	return nil
}

func (f *File) Stat() (fs.FileInfo, error) {
	if f.closed {
		return nil, fs.ErrClosed
	}
	return Stat(f.name)
}

// ReadFile replaces os.ReadFile in instrumented code.
func ReadFile(name string) ([]byte, error) {
	diskMu.Lock()
	defer diskMu.Unlock()
	b, ok := files[name]
	if !ok {
		return nil, &fs.PathError{Op: "open", Path: name, Err: syscall.ENOENT}
	}
	return append([]byte(nil), b...), nil
}

// Journal returns all writes so far (shared backing data; treat as read-only).
func Journal() []Write {
	diskMu.Lock()
	defer diskMu.Unlock()
	return append([]Write(nil), journal...)
}

// JournalLen returns the number of writes so far.
func JournalLen() int {
	diskMu.Lock()
	defer diskMu.Unlock()
	return len(journal)
}

// JournalOf / JournalLenOf: the writes to paths with the given suffix (the subscribers' CDR
// files are /tmp/<supi>.cdr; temporary files an implementation may write next to them and
// rename into place are not what a reader of the CDR files sees).
func JournalOf(suffix string) []Write {
	diskMu.Lock()
	defer diskMu.Unlock()
	var out []Write
	for _, w := range journal {
		if strings.HasSuffix(w.Path, suffix) {
			out = append(out, w)
		}
	}
	return out
}

func JournalLenOf(suffix string) int {
	diskMu.Lock()
	defer diskMu.Unlock()
	n := 0
	for _, w := range journal {
		if strings.HasSuffix(w.Path, suffix) {
			n++
		}
	}
	return n
}

// Files returns the sorted paths on the simulated disk.
func Files() []string {
	diskMu.Lock()
	defer diskMu.Unlock()
	var out []string
	for k := range files {
		out = append(out, k)
	}
	sort.Strings(out)
	return out
}
