package verifsim

import (
	"fmt"
	"math"
	"math/big"
	"strconv"
)

func init() {
	extraGenerators["C07"] = GenC07
	extraGenerators["C08"] = GenC08
	extraCheckers["C07"] = CheckC07
	extraCheckers["C08"] = CheckC08
}

const (
	actDirectDebiting = 0
	actRefund         = 1
	actCheckBalance   = 2
	actPriceEnquiry   = 3
)

// ---------------------------------------------------------------- C07

func GenC07(seed uint64) *Scenario {
	g := newGen("C07", seed)
	g.sc.Cfg.MaxLatNs = []int64{300_000, 5_000_000}[g.r.Intn(2)]
	nAcc := 1 + g.r.Intn(3)
	type key struct {
		sub string
		rg  uint32
	}
	var keys []key
	balClass := g.r.Intn(4)
	for i := 0; i < nAcc; i++ {
		sub := fmt.Sprintf("2089300000000%02d", 1+i/2)
		rg := uint32(1 + i%2)
		var q int64
		switch (balClass + g.r.Intn(2)) % 4 {
		case 0:
			q = g.r.Range(0, 3)
		case 1:
			q = g.r.Range(0, 100_000)
		case 2:
			q = g.r.Range(1<<31-5, 1<<32+5)
		default:
			q = g.r.Range(1<<40, 1<<61)
		}
		g.sc.Accounts = append(g.sc.Accounts, Account{Supi: "imsi-" + sub, RG: int32(rg), Quota: q, UnitCost: "1"})
		keys = append(keys, key{sub, rg})
	}
	allowUnknown := g.r.Chance(500)
	allowOdd := g.r.Chance(400) // CHECK_BALANCE / PRICE_ENQUIRY / EVENT_REQUEST
	nConn := 1 + g.r.Intn(3)
	g.sc.Shape = fmt.Sprintf("accounts=%d bal=%d unknown=%v odd=%v conns=%d", nAcc, balClass, allowUnknown, allowOdd, nConn)
	// the generator tracks an upper bound of each balance so that refunds never overflow int64
	ub := map[key]*big.Int{}
	lb := map[key]*big.Int{} // lower bound of each balance, so that termination debits never underflow int64
	for i, k := range keys {
		ub[k] = big.NewInt(g.sc.Accounts[i].Quota)
		lb[k] = big.NewInt(g.sc.Accounts[i].Quota)
	}
	var ops []Op
	reqNum := map[key]uint32{}
	n := 1 + g.r.Intn(60)
	for i := 0; i < n; i++ {
		k := keys[g.r.Intn(len(keys))]
		known := true
		subType := int32(1)
		if allowUnknown && g.r.Chance(150) {
			known = false
			switch g.r.Intn(3) {
			case 0:
				k = key{"208930000000099", k.rg}
			case 1:
				k = key{k.sub, 77}
			default:
				// the digits of a provisioned subscriber under another identity type (E.164, SIP URI,
				// NAI, private): not an IMSI, so no account of this server is meant
				subType = []int32{0, 2, 3, 4}[g.r.Intn(4)]
			}
		}
		d := &DiamOp{Conn: g.r.Intn(nConn), SessionID: fmt.Sprintf("%d", 1+g.r.Intn(5)), SubType: subType, SubData: k.sub, RG: k.rg}
		d.ReqNum = reqNum[k]
		if g.r.Chance(100) {
			d.ReqNum = uint32(g.r.U64())
		}
		reqNum[k]++
		cur := ub[k]
		amount := func() uint64 {
			var b int64
			if cur != nil && cur.IsInt64() {
				b = cur.Int64()
			}
			switch g.r.Intn(9) {
			case 0:
				return 0
			case 1:
				return 1
			case 2:
				if b > 0 {
					return uint64(b - 1)
				}
				return 0
			case 3:
				return uint64(max64(b, 0))
			case 4:
				return uint64(max64(b, 0)) + 1
			case 5:
				return 1 << 31
			case 6:
				return 1 << 32
			case 7:
				return uint64(g.r.Range(0, 1_000_000))
			}
			return uint64(g.r.Range(0, math.MaxInt64>>3))
		}
		switch r := g.r.Intn(100); {
		case r < 55:
			d.Action = actDirectDebiting
			d.ReqType = []int32{1, 2, 2, 2}[g.r.Intn(4)]
			d.Amount = amount()
			if g.r.Chance(50) {
				d.Amount = math.MaxInt64
			}
			if known && lb[k] != nil && lb[k].Sign() > 0 {
				lb[k].SetInt64(0) // a reservation can take a positive balance down to zero, never below
			}
		case r < 75:
			d.Action = actRefund
			d.ReqType = []int32{2, 2, 3, 1}[g.r.Intn(4)]
			d.Amount = amount()
			if known && cur != nil {
				// keep balance + refund below 2^62 (the stored balance is a signed 64-bit decimal)
				lim := new(big.Int).Sub(big.NewInt(1<<62), cur)
				if lim.Sign() <= 0 {
					d.Amount = 0
				} else if lim.IsUint64() && d.Amount > lim.Uint64() {
					d.Amount = lim.Uint64()
				}
				cur.Add(cur, new(big.Int).SetUint64(d.Amount))
			}
		case r < 90:
			d.Action = actDirectDebiting
			d.ReqType = 3 // termination debit
			d.Amount = amount()
			if d.Amount > 1<<61 {
				d.Amount = 1 << 61
			}
			if known && lb[k] != nil {
				// the balance after a termination debit may be negative but must stay above -2^62
				if new(big.Int).Sub(lb[k], new(big.Int).SetUint64(d.Amount)).Cmp(big.NewInt(-(1 << 62))) < 0 {
					d.Amount = 0
				}
				lb[k].Sub(lb[k], new(big.Int).SetUint64(d.Amount))
			}
		default:
			if allowOdd {
				d.Action = []int32{actCheckBalance, actPriceEnquiry, actDirectDebiting}[g.r.Intn(3)]
				d.ReqType = []int32{1, 2, 3, 4}[g.r.Intn(4)]
				if d.Action == actDirectDebiting {
					d.ReqType = 4 // EVENT_REQUEST
				}
				d.Amount = amount()
			} else {
				d.Action = actDirectDebiting
				d.ReqType = 2
				d.Amount = amount()
			}
		}
		ops = append(ops, Op{ID: g.id(), Kind: "ccr", D: d})
	}
	g.sc.Tasks = []Task{{ID: 0, Ops: ops}}
	if len(keys) > 1 && g.r.Chance(300) {
		g.sc.Cfg.Concurrent = true
		if g.sc.Cfg.DBDelayMaxNs == 0 {
			g.sc.Cfg.DBDelayMaxNs = []int64{1_000_000, 20_000_000}[g.r.Intn(2)]
		}
		// one peer per account: requests for different accounts overlap, requests for one
		// account stay sequential (as the CHF's per-subscriber lock guarantees)
		idx := map[string]int{}
		var tasks []Task
		for _, op := range ops {
			k := fmt.Sprintf("%s|%d", op.D.SubData, op.D.RG)
			ti, ok := idx[k]
			if !ok {
				ti = len(tasks)
				idx[k] = ti
				tasks = append(tasks, Task{ID: ti, StartNs: g.r.Range(0, 2_000_000)})
			}
			tasks[ti].Ops = append(tasks[ti].Ops, op)
		}
		g.sc.Tasks = tasks
		g.sc.Shape += fmt.Sprintf(" peers=%d", len(tasks))
	}
	return g.sc
}

func max64(a, b int64) int64 {
	if a > b {
		return a
	}
	return b
}

// CheckC07 compares every answer and every stored balance with a sequential reference
// model of the account server.
func CheckC07(h *History) []Violation {
	var v vio
	model := map[string]*big.Int{}
	for _, a := range h.Scenario.Accounts {
		model[acctKey(a.Supi, a.RG)] = big.NewInt(a.Quota)
	}
	for _, o := range h.Ops {
		if o.Op.Kind != "ccr" || o.Diam == nil {
			continue
		}
		d, r := o.Op.D, o.Diam
		if r.DialErr != "" {
			v.add("C07", "harness-dial", "", o.Op.ID, "%s", r.DialErr)
			return v.list
		}
		k := acctKey("imsi-"+d.SubData, int32(d.RG))
		bal, known := model[k]
		known = known && d.SubType == 1
		name := ccrName(d)
		if !known {
			if r.PreDB != r.PostDB && !h.Scenario.Cfg.Concurrent { // with concurrent peers the store legitimately changes meanwhile; stray effects then show in the other accounts' balance checks and in the final comparison

				v.add("C07", "unknown-key-effect", "", o.Op.ID, "CCR op %d for unknown subscriber/rating group (%s rg %d) changed stored data:\n%s", o.Op.ID, d.SubData, d.RG, snapDiff(r.PreDB, r.PostDB))
				return v.list
			}
			continue
		}
		// expected effect
		amount := new(big.Int).SetUint64(d.Amount)
		var wantGrant *big.Int
		wantFUI := false
		specified := true
		switch {
		case d.Action == actDirectDebiting && (d.ReqType == 1 || d.ReqType == 2):
			wantGrant = new(big.Int).Set(amount)
			if amount.Cmp(bal) > 0 {
				wantGrant = new(big.Int).Set(bal)
				if wantGrant.Sign() < 0 {
					wantGrant.SetInt64(0)
				}
				wantFUI = true
			}
			bal.Sub(bal, wantGrant)
		case d.Action == actRefund:
			bal.Add(bal, amount)
		case d.Action == actDirectDebiting && d.ReqType == 3:
			bal.Sub(bal, amount)
		default:
			specified = false
		}
		if !r.Answered {
			if specified {
				v.add("C07", "no-answer", "req="+name, o.Op.ID, "CCR op %d (%s, amount %d) for a known account got no answer within 10 s", o.Op.ID, name, d.Amount)
				return v.list
			}
		} else {
			f := r.F
			if !f.HasSession || f.SessionID != d.SessionID || !f.HasReqType || f.ReqType != int64(d.ReqType) || !f.HasReqNum || f.ReqNum != int64(d.ReqNum) {
				v.add("C07", "echo", "req="+name, o.Op.ID,
					"CCA for op %d (%s) does not echo the request: Session-Id %q/%q, CC-Request-Type %d/%d, CC-Request-Number %d/%d (answer/request)",
					o.Op.ID, name, f.SessionID, d.SessionID, f.ReqType, d.ReqType, f.ReqNum, d.ReqNum)
				if len(v.list) >= 4 {
					return v.list
				}
			}
			if wantGrant != nil {
				if !f.HasGSU || new(big.Int).SetUint64(f.Granted).Cmp(wantGrant) != 0 {
					v.add("C07", "grant", "", o.Op.ID, "op %d (%s): requested %d with balance %d: granted %d (present=%v), expected min(requested, balance) = %s",
						o.Op.ID, name, d.Amount, r.PreBal, f.Granted, f.HasGSU, wantGrant)
					return v.list
				}
				if f.FUI != wantFUI {
					v.add("C07", "final-unit-indication", fmt.Sprintf("want=%v", wantFUI), o.Op.ID,
						"op %d (%s): requested %d with balance %d: final-unit indication %v, expected %v (exactly when the request exceeds the balance)",
						o.Op.ID, name, d.Amount, r.PreBal, f.FUI, wantFUI)
					return v.list
				}
			}
		}
		if specified {
			if !bal.IsInt64() || bal.Int64() != r.PostBal {
				v.add("C07", "balance", "req="+name, o.Op.ID, "op %d (%s, amount %d): stored balance went %d -> %d, reference model says %s",
					o.Op.ID, name, d.Amount, r.PreBal, r.PostBal, bal)
				return v.list
			}
			if wantGrant != nil && r.PostBal < 0 && r.PreBal >= 0 {
				v.add("C07", "negative-after-reservation", "", o.Op.ID, "op %d: a reservation took the balance below zero (%d)", o.Op.ID, r.PostBal)
				return v.list
			}
		} else {
			// behaviour not fixed by the statement: only the echo clause applies; re-sync the model
			bal.SetInt64(r.PostBal)
		}
	}
	// at the end every stored balance equals the reference model
	for _, st := range h.Final {
		if m, ok := model[acctKey(st.Supi, st.RG)]; ok && st.HasQuota && (!m.IsInt64() || m.Int64() != st.Quota) {
			v.add("C07", "final-balance", "", -1, "after all requests the stored balance of %s rg %d is %d, the reference model says %s", st.Supi, st.RG, st.Quota, m)
			break
		}
	}
	return v.list
}

func ccrName(d *DiamOp) string {
	act := map[int32]string{0: "DIRECT_DEBITING", 1: "REFUND_ACCOUNT", 2: "CHECK_BALANCE", 3: "PRICE_ENQUIRY"}[d.Action]
	typ := map[int32]string{1: "INITIAL", 2: "UPDATE", 3: "TERMINATION", 4: "EVENT"}[d.ReqType]
	return act + "/" + typ
}

// ---------------------------------------------------------------- C08

var c08Costs = []string{"1", "2", "3", "7", "10", "100", "999", "1000", "65536", "4294967295", "0", "0", "00", "1.5", "0.5", "2.50", "10.0", ".5", "5.",
	"010", "007", "08", "09", "0100", "0017", "0.17", "0.08", "0.9", "+5", "1_000",
	"", "abc", "1e3", "-1", " 2", "4294967296", "99999999999999999999", "1,5", "0x10"}

// tariffs of the whole-system family: plain positive integers, among them values that a
// single-precision float cannot represent (above 2^24) and the 32-bit extremes
var c08WholeCosts = []string{"1", "2", "3", "7", "10", "100", "999", "1000", "65536", "16777217", "33554433", "123456789", "4294967295",
	"4294967301", "8589934597", "42949672960", "010", "08"} // the last ones: beyond 32 bits (both sides reduce modulo 2^32), leading zeros

// genC08Whole: the CHF in front of the rating server; the operator changes the stored
// tariff between usage reports. After every update the unit cost the CHF holds must be the
// one the rating server applied (decoded from the answer on the wire).
func genC08Whole(g *gen) *Scenario {
	g.sc.Cfg.WholeSystem = true
	supi := supiN(1)
	nrg := 1 + g.r.Intn(2)
	for rg := 1; rg <= nrg; rg++ {
		g.sc.Accounts = append(g.sc.Accounts, Account{Supi: supi, RG: int32(rg), Quota: 2_000_000_000, UnitCost: c08WholeCosts[g.r.Intn(len(c08WholeCosts))]})
	}
	ops := []Op{{ID: g.id(), Kind: "create", Supi: supi, Sess: "s", Consumer: "smf", ChargingID: 3}}
	n := 2 + g.r.Intn(10)
	for i := 0; i < n; i++ {
		rg := int32(1 + g.r.Intn(nrg))
		if g.r.Chance(350) {
			ops = append(ops, Op{ID: g.id(), Kind: "dbcost", Supi: supi, RG: rg, Consumer: c08WholeCosts[g.r.Intn(len(c08WholeCosts))]})
		}
		ops = append(ops, Op{ID: g.id(), Kind: "update", Supi: supi, Sess: "s",
			Units: []Unit{{RG: rg, Req: int32(g.r.Range(1, 1000)), Containers: []Container{g.online([]int{0, 500, 1000}[g.r.Intn(3)])}}}})
	}
	g.sc.Shape = fmt.Sprintf("whole-system rgs=%d ops=%d", nrg, n)
	g.sc.Tasks = []Task{{ID: 0, Ops: ops}}
	return g.sc
}

func GenC08(seed uint64) *Scenario {
	g := newGen("C08", seed)
	if g.r.Chance(200) {
		return genC08Whole(g)
	}
	g.sc.Cfg.MaxLatNs = []int64{300_000, 5_000_000}[g.r.Intn(2)]
	nAcc := 1 + g.r.Intn(3)
	sane := g.r.Chance(500) // half of the runs only use plain positive integer tariffs
	for i := 0; i < nAcc; i++ {
		c := c08Costs[g.r.Intn(len(c08Costs))]
		if sane || i == 0 {
			c = c08Costs[g.r.Intn(10)]
		}
		g.sc.Accounts = append(g.sc.Accounts, Account{Supi: fmt.Sprintf("imsi-2089300000000%02d", i+1), RG: 1, Quota: 1000, UnitCost: c})
	}
	nConn := 1 + g.r.Intn(2)
	g.sc.Shape = fmt.Sprintf("accounts=%d sane=%v conns=%d", nAcc, sane, nConn)
	var ops []Op
	n := 1 + g.r.Intn(40)
	val := func() uint32 {
		switch g.r.Intn(8) {
		case 0:
			return 0
		case 1:
			return 1
		case 2:
			return uint32(g.r.Range(0, 1000))
		case 3:
			return math.MaxUint32
		case 4:
			return 1 << 31
		case 5:
			return 65535
		}
		return uint32(g.r.Range(0, math.MaxUint32))
	}
	for i := 0; i < n; i++ {
		a := g.r.Intn(nAcc)
		d := &DiamOp{Conn: g.r.Intn(nConn), SessionID: fmt.Sprint(1 + g.r.Intn(3)), SubType: 1, SubData: fmt.Sprintf("2089300000000%02d", a+1), RG: 1}
		if g.r.Chance(80) {
			d.RG = 9 // unknown key
		}
		switch r := g.r.Intn(100); {
		case r < 45:
			d.RateSubType = 1 // reserve
			d.MonetaryQuota = val()
		case r < 90:
			d.RateSubType = 2 // debit
			d.Consumed = val()
		default:
			d.RateSubType = []int32{0, 3, 7}[g.r.Intn(3)]
			d.MonetaryQuota, d.Consumed = val(), val()
		}
		ops = append(ops, Op{ID: g.id(), Kind: "sur", D: d})
	}
	// the server must still serve a healthy tariff at the end, on an old and on a fresh connection
	ops = append(ops, Op{ID: g.id(), Kind: "sur", Role: "health", D: &DiamOp{Conn: 0, SessionID: "9", SubType: 1, SubData: "208930000000001", RG: 1, RateSubType: 2, Consumed: 3}},
		Op{ID: g.id(), Kind: "sur", Role: "health", D: &DiamOp{Conn: 7, SessionID: "9", SubType: 1, SubData: "208930000000001", RG: 1, RateSubType: 1, MonetaryQuota: 1000}})
	g.sc.Tasks = []Task{{ID: 0, Ops: ops}}
	if g.r.Chance(350) {
		// several peers on their own connections at the same time; with a slow tariff lookup
		// their requests overlap inside the server
		g.sc.Cfg.Concurrent = true
		if g.sc.Cfg.DBDelayMaxNs == 0 {
			g.sc.Cfg.DBDelayMaxNs = []int64{1_000_000, 20_000_000}[g.r.Intn(2)]
		}
		nPeers := 2 + g.r.Intn(3)
		var tasks []Task
		for t := 0; t < nPeers; t++ {
			tasks = append(tasks, Task{ID: t, StartNs: g.r.Range(0, 2_000_000)})
		}
		for i, op := range ops {
			tasks[i%nPeers].Ops = append(tasks[i%nPeers].Ops, op)
		}
		g.sc.Tasks = tasks
		g.sc.Shape += fmt.Sprintf(" peers=%d", nPeers)
	}
	return g.sc
}

// CheckC08: every SUR for a known key is answered and priced exactly with the unit cost
// that the CHF-side formula decodes from the tariff in the answer.
func CheckC08(h *History) []Violation {
	var v vio
	if h.Scenario.Cfg.WholeSystem {
		cur := map[string]string{}
		for _, a := range h.Scenario.Accounts {
			cur[acctKey(a.Supi, a.RG)] = a.UnitCost
		}
		ranDry := map[int32]bool{}
		for _, o := range h.Ops {
			if o.Op.Kind == "dbcost" {
				cur[acctKey(o.Op.Supi, o.Op.RG)] = o.Op.Consumer
			}
			if o.Op.Kind != "update" || !o.Done || o.Status != 200 {
				continue
			}
			for _, u := range o.Op.Units {
				// the tariff in the last answer to a reserve-mode rating request of this op for this
				// group, as the wire shows it: that is the one the CHF decodes and keeps (in debit mode
				// the server prices and the CHF decodes nothing, so nothing is compared)
				var digits, exp int64
				have := false
				type hk struct {
					conn int
					hop  uint32
				}
				reserve := map[hk]bool{}
				for _, m := range h.Msgs {
					if m.Op == o.Op.ID && m.Cmd == 111 && m.Request && !m.ToClient && m.F.HasSR && m.F.ServiceID == int64(u.RG) && m.F.ReqSubType == 1 {
						reserve[hk{m.Conn, m.HopByHop}] = true
					}
				}
				for _, m := range h.Msgs {
					if m.Op == o.Op.ID && m.Cmd == 111 && !m.Request && m.ToClient && m.Delivered && m.F.HasTariff && reserve[hk{m.Conn, m.HopByHop}] {
						digits, exp, have = m.F.TariffDigits, m.F.TariffExp, true
					}
				}
				st, ok := stateOf(o.Post, o.Op.Supi, u.RG)
				if !have || !ok {
					continue
				}
				k := uint64(uint32(digits)) * uint64(uint32(math.Pow10(int(exp))))
				if uint64(st.UnitCost) != k&math.MaxUint32 {
					v.add("C08", "chf-unit-cost-disagrees", "", o.Op.ID,
						"after update op %d the CHF rates %s rg %d with unit cost %d, but the rating server's answer to this very request carries the tariff %d x 10^%d = %d (stored unit cost %q)",
						o.Op.ID, o.Op.Supi, u.RG, st.UnitCost, digits, exp, k, cur[acctKey(o.Op.Supi, u.RG)])
					return v.list
				}
				// ... and the money the CHF took for the usage reported in this request is that usage
				// priced with the unit cost the server applies now (the operator may have changed the
				// stored tariff since the last report): account + reservation went down by used x k.
				// Compared only while the account never ran dry (no final-unit / debit-mode episode)
				// and inside the quantifier's domain (the exact price fits 32 bits).
				pre, okPre := stateOf(o.Pre, o.Op.Supi, u.RG)
				if !okPre || !pre.HasQuota || !st.HasQuota || pre.Quota <= 0 || st.Quota <= 0 || ranDry[u.RG] {
					if okPre && (pre.Quota <= 0 || st.Quota <= 0) {
						ranDry[u.RG] = true
					}
					continue
				}
				used := onlineUsed(o)[u.RG]
				k32 := k & math.MaxUint32
				if used < 0 || uint64(used)*k32 > math.MaxUint32 {
					continue
				}
				taken := (pre.Quota + pre.Reserved) - (st.Quota + st.Reserved)
				if taken != int64(uint64(used)*k32) {
					v.add("C08", "chf-prices-with-another-unit-cost", "", o.Op.ID,
						"update op %d reports %d used units of %s rg %d; the rating server's answers to this request carry the tariff %d x 10^%d = %d (stored unit cost %q), so the usage costs %d, but account + reservation went down by %d (%d+%d -> %d+%d): the CHF priced it with another unit cost",
						o.Op.ID, used, o.Op.Supi, u.RG, digits, exp, k, cur[acctKey(o.Op.Supi, u.RG)], uint64(used)*k32, taken, pre.Quota, pre.Reserved, st.Quota, st.Reserved)
					return v.list
				}
			}
		}
		return v.list
	}
	for _, o := range h.Ops {
		if o.Op.Kind != "sur" || o.Diam == nil {
			continue
		}
		d, r := o.Op.D, o.Diam
		if r.DialErr != "" {
			v.add("C08", "harness-dial", "", o.Op.ID, "%s", r.DialErr)
			return v.list
		}
		a := h.Scenario.account("imsi-"+d.SubData, int32(d.RG))
		if a == nil || a.NoUnitCost {
			continue
		}
		if !r.Answered {
			v.add("C08", "no-answer", "tariff="+tariffClass(a.UnitCost), o.Op.ID,
				"SUR op %d (sub-type %d, quota %d, consumed %d) for a known account with stored unit cost %q got no answer within 10 s; handler panics so far: %v",
				o.Op.ID, d.RateSubType, d.MonetaryQuota, d.Consumed, a.UnitCost, h.DiamPanics)
			if len(v.list) >= 3 {
				return v.list
			}
			continue
		}
		f := r.F
		if !f.HasTariff {
			v.add("C08", "no-tariff", "", o.Op.ID, "SUA for op %d carries no unit cost", o.Op.ID)
			return v.list
		}
		// the unit cost as the CHF decodes it (internal/sbi/processor getUnitCost): uint32(digits) * uint32(10^exp)
		k := uint64(uint32(f.TariffDigits)) * uint64(uint32(math.Pow10(int(f.TariffExp))))
		if k > math.MaxUint32 {
			k &= math.MaxUint32
		}
		// for a plain positive integer tariff that fits 32 bits the decoded cost must be that integer
		if n, err := strconv.ParseUint(a.UnitCost, 10, 32); err == nil && n > 0 && k != n {
			v.add("C08", "tariff-mismatch", "", o.Op.ID, "stored unit cost %q is decoded by the CHF formula as %d (digits %d, exponent %d)", a.UnitCost, k, f.TariffDigits, f.TariffExp)
			return v.list
		}
		if k == 0 {
			continue // no price is defined for a zero / unparsable tariff; answering is what is required
		}
		switch d.RateSubType {
		case 2: // debit
			exact := uint64(d.Consumed) * k
			if exact > math.MaxUint32 {
				continue // outside the quantifier: the exact price does not fit the AVP
			}
			if !f.HasPrice || f.Price != exact {
				v.add("C08", "price", "mode=debit", o.Op.ID, "op %d: consumed %d x unit cost %d: price %d (present=%v), expected %d", o.Op.ID, d.Consumed, k, f.Price, f.HasPrice, exact)
				return v.list
			}
		case 1: // reserve
			allowed := uint64(d.MonetaryQuota) / k
			if !f.HasAllowed || f.Allowed != allowed {
				v.add("C08", "allowed-units", "", o.Op.ID, "op %d: quota %d / unit cost %d: allowed units %d (present=%v), expected %d", o.Op.ID, d.MonetaryQuota, k, f.Allowed, f.HasAllowed, allowed)
				return v.list
			}
			if !f.HasPrice || f.Price != allowed*k || f.Price > uint64(d.MonetaryQuota) {
				v.add("C08", "price", "mode=reserve", o.Op.ID, "op %d: quota %d, unit cost %d: price %d, expected allowed %d x cost = %d <= quota", o.Op.ID, d.MonetaryQuota, k, f.Price, allowed, allowed*k)
				return v.list
			}
		}
	}
	return v.list
}

func tariffClass(c string) string {
	if n, err := strconv.ParseUint(c, 10, 64); err == nil {
		switch {
		case n == 0:
			return "zero"
		case n > math.MaxUint32:
			return "integer-over-32-bit"
		}
		return "integer"
	}
	if _, err := strconv.ParseFloat(c, 64); err == nil {
		return "fraction-or-other-number"
	}
	return "malformed"
}
