package sbi

import "github.com/gin-gonic/gin"

// VerifRouter exposes the real gin engine to the simulation harness (overlay only;
// this file is never part of /repo).
func (s *Server) VerifRouter() *gin.Engine { return s.router }
