package cgf

// VerifEnable puts the package in the state pkg/service leaves it in with
// `cgf.enable: true` once the embedded FTP server has been set up, without opening real
// sockets: SendCDR will log in to addr with the built-in account (overlay only; this file
// is never part of /repo).
func VerifEnable(addr string) {
	cgf = &Cgf{
		addr:      addr,
		ftpConfig: FtpConfig{Version: 1, Accesses: []Access{{User: "admin", Pass: "free5gc", Fs: "os"}}},
	}
	CGFEnable = true
}

// VerifDisable restores the default (`cgf.enable: false`).
func VerifDisable() {
	CGFEnable = false
	cgf = nil
}
