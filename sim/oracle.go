package verifsim

import (
	"bytes"
	"fmt"
	"sort"
	"strconv"
	"strings"
	"time"

	chf_context "github.com/free5gc/chf/internal/context"
)

// MemRec is an in-memory CHF record as read through the exported context API.
type MemRec struct {
	Session    string         `json:"session"`
	HasSession bool           `json:"has_session"`
	LocalSeq   int64          `json:"local_seq"`
	Cause      int64          `json:"cause"`
	Containers []cdrContainer `json:"-"`
	NCont      int            `json:"n_cont"`
}

// memRecords reads ChfUe.Records of a subscriber (only called when no request for that
// subscriber is in flight).
func memRecords(supi string) []MemRec {
	ue, ok := chf_context.GetSelf().ChfUeFindBySupi(supi)
	if !ok || ue == nil {
		return nil
	}
	var out []MemRec
	for _, r := range ue.Records {
		if r == nil || r.ChargingFunctionRecord == nil {
			out = append(out, MemRec{})
			continue
		}
		c := r.ChargingFunctionRecord
		m := MemRec{Cause: int64(c.CauseForRecClosing.Value)}
		if c.ChargingSessionIdentifier != nil {
			m.Session, m.HasSession = string(c.ChargingSessionIdentifier.Value), true
		}
		if c.LocalRecordSequenceNumber != nil {
			m.LocalSeq = c.LocalRecordSequenceNumber.Value
		}
		for _, mu := range c.ListOfMultipleUnitUsage {
			for _, uc := range mu.UsedUnitContainers {
				e := cdrContainer{RG: mu.RatingGroup.Value}
				if uc.LocalSequenceNumber != nil {
					e.Seq, e.HasSeq = uc.LocalSequenceNumber.Value, true
				}
				if uc.DataTotalVolume != nil {
					e.Vol = uc.DataTotalVolume.Value
				}
				if uc.DataVolumeUplink != nil {
					e.Up = uc.DataVolumeUplink.Value
				}
				if uc.DataVolumeDownlink != nil {
					e.Down = uc.DataVolumeDownlink.Value
				}
				if uc.ServiceSpecificUnits != nil {
					e.SSU = *uc.ServiceSpecificUnits
				}
				m.Containers = append(m.Containers, e)
			}
		}
		m.NCont = len(m.Containers)
		out = append(out, m)
	}
	return out
}

// ---------------------------------------------------------------- helpers

func is2xx(s int) bool { return s >= 200 && s < 300 }
func is4xx(s int) bool { return s >= 400 && s < 500 }
func is5xx(s int) bool { return s >= 500 && s < 600 }

func (sc *Scenario) account(supi string, rg int32) *Account {
	for i := range sc.Accounts {
		if sc.Accounts[i].Supi == supi && sc.Accounts[i].RG == rg {
			return &sc.Accounts[i]
		}
	}
	return nil
}

func intCost(a *Account) (int64, bool) {
	if a == nil {
		return 0, false
	}
	v, err := strconv.ParseInt(a.UnitCost, 10, 64)
	if err != nil || v <= 0 {
		return 0, false
	}
	return v, true
}

func stateOf(states []AcctState, supi string, rg int32) (AcctState, bool) {
	for _, s := range states {
		if s.Supi == supi && s.RG == rg {
			return s, true
		}
	}
	return AcctState{}, false
}

type vio struct{ list []Violation }

func (v *vio) add(prop, class, sig string, op int, f string, a ...interface{}) {
	v.list = append(v.list, Violation{Prop: prop, Class: class, Sig: sig, OpID: op, Detail: fmt.Sprintf(f, a...)})
}

// onlineUsed sums the online-charging volume per rating group reported by an op.
func onlineUsed(o *OpResult) map[int32]int64 {
	m := map[int32]int64{}
	for _, c := range o.Reported {
		if c.Online {
			m[c.RG] += int64(c.Vol)
		}
	}
	return m
}

func hasOnline(o *OpResult, rg int32) bool {
	for _, c := range o.Reported {
		if c.Online && c.RG == rg {
			return true
		}
	}
	return false
}

// ---------------------------------------------------------------- liveness (all properties)

// CheckLiveness: every op returns within its simulated budget.
func CheckLiveness(h *History, prop string) []Violation {
	var v vio
	if h.BootErr != "" {
		v.add(prop, "harness-boot", "", -1, "%s", h.BootErr)
	}
	for _, o := range append(append([]*OpResult(nil), h.Ops...), h.Epilogue...) {
		if o.Skipped != "" || o.Op.Kind == "sleep" || o.Op.Kind == "dbset" {
			continue
		}
		if !o.Done {
			v.add(prop, "no-return", wedgeSite(o.Stacks), o.Op.ID,
				"op %d (%s %s) did not return within the simulated budget; parked CHF goroutines:\n%s",
				o.Op.ID, o.Op.Kind, o.Op.Supi, o.Stacks)
		}
	}
	return v.list
}

// wedgeSite names the innermost CHF function of the first parked goroutine.
func wedgeSite(stacks string) string {
	for _, line := range strings.Split(stacks, "\n") {
		line = strings.TrimSpace(line)
		if strings.HasPrefix(line, "github.com/free5gc/chf/") && !strings.Contains(line, "/verifsim") {
			if i := strings.LastIndex(line, "("); i > 0 {
				line = line[:i]
			}
			return strings.TrimPrefix(line, "github.com/free5gc/chf/")
		}
	}
	return "unknown"
}

// ---------------------------------------------------------------- C01

// CheckC01: account + reservation == credited - unitCost * online usage, after every op.
func CheckC01(h *History) []Violation {
	var v vio
	sc := h.Scenario
	if sc.Cfg.Concurrent {
		return QuiescentIdentity(h, "C01")
	}
	used := map[string]int64{}     // acctKey -> online volume reported in accepted requests
	credited := map[string]int64{} // acctKey -> money credited so far
	absorbed := map[string]int64{} // acctKey -> discrepancies already reported
	for _, a := range sc.Accounts {
		credited[acctKey(a.Supi, a.RG)] = a.Quota
	}
	for _, o := range h.Ops {
		if !o.Done || o.Skipped != "" {
			continue
		}
		switch o.Op.Kind {
		case "recharge":
			if _, ok := credited[acctKey(o.Op.Supi, o.Op.RG)]; ok {
				credited[acctKey(o.Op.Supi, o.Op.RG)] += o.Op.TopUp
			}
		case "dbset":
			credited[acctKey(o.Op.Supi, o.Op.RG)] = o.Op.TopUp
			used[acctKey(o.Op.Supi, o.Op.RG)] = 0
		case "create", "update", "release":
			if is2xx(o.Status) {
				for rg, u := range onlineUsed(o) {
					used[acctKey(o.Op.Supi, rg)] += u
				}
			}
		}
		for _, st := range o.Post {
			a := sc.account(st.Supi, st.RG)
			cost, ok := intCost(a)
			if !ok || !st.HasQuota {
				continue
			}
			k := acctKey(st.Supi, st.RG)
			want := credited[k] - cost*used[k] + absorbed[k]
			got := st.Quota + st.Reserved
			if got != want {
				absorbed[k] += got - want // report each discrepancy once
				dir := "credit-created"
				if got < want {
					dir = "credit-destroyed"
				}
				v.add("C01", "identity", fmt.Sprintf("%s after=%s", dir, o.Op.Kind), o.Op.ID,
					"after op %d (%s, status %d) %s rg %d: balance %d + reserved %d = %d, expected credited %d - cost %d x used %d = %d (diff %+d)",
					o.Op.ID, o.Op.Kind, o.Status, st.Supi, st.RG, st.Quota, st.Reserved, got, credited[k], cost, used[k], want, got-want)
				if len(v.list) >= 6 {
					return v.list
				}
			}
		}
		// final debit: nothing stays reserved for the groups the final request reported
		if (o.Op.Kind == "update" || o.Op.Kind == "release") && o.Op.Final && is2xx(o.Status) {
			for _, u := range o.Op.Units {
				if !hasOnline(o, u.RG) {
					continue
				}
				if st, ok := stateOf(o.Post, o.Op.Supi, u.RG); ok && st.Reserved != 0 {
					v.add("C01", "final-reservation", "kind="+o.Op.Kind, o.Op.ID,
						"after final op %d (%s) %s rg %d still holds reservation %d", o.Op.ID, o.Op.Kind, o.Op.Supi, u.RG, st.Reserved)
					if len(v.list) >= 6 {
						return v.list
					}
				}
			}
		}
	}
	return v.list
}

// QuiescentIdentity checks the accounting identity for every account once all requests
// have completed (concurrent scenarios, where no per-op state is read).
func QuiescentIdentity(h *History, prop string) []Violation {
	var v vio
	if h.Aborted {
		return nil
	}
	sc := h.Scenario
	all := append(append(append([]*OpResult(nil), h.Ops...), h.Epilogue...), h.Callbacks...)
	used := map[string]int64{}
	credited := map[string]int64{}
	for _, a := range sc.Accounts {
		credited[acctKey(a.Supi, a.RG)] = a.Quota
	}
	for _, o := range all {
		if !o.Done || o.Skipped != "" {
			continue
		}
		switch o.Op.Kind {
		case "recharge":
			credited[acctKey(o.Op.Supi, o.Op.RG)] += o.Op.TopUp
		case "create", "update", "release":
			if is2xx(o.Status) {
				for rg, u := range onlineUsed(o) {
					used[acctKey(o.Op.Supi, rg)] += u
				}
			}
		}
	}
	for _, st := range h.Final {
		cost, ok := intCost(sc.account(st.Supi, st.RG))
		if !ok || !st.HasQuota {
			continue
		}
		k := acctKey(st.Supi, st.RG)
		want := credited[k] - cost*used[k]
		if got := st.Quota + st.Reserved; got != want {
			dir := "credit-created"
			if got < want {
				dir = "credit-destroyed"
			}
			v.add(prop, "quiescent-identity", dir, -1,
				"after all concurrent requests completed: %s rg %d balance %d + reserved %d = %d, expected credited %d - cost %d x used %d = %d (diff %+d)",
				st.Supi, st.RG, st.Quota, st.Reserved, got, credited[k], cost, used[k], want, got-want)
			break
		}
	}
	return v.list
}

// ---------------------------------------------------------------- C06

// CheckC06: no overdraft; a grant is limited to what the available money buys.
func CheckC06(h *History) []Violation {
	var v vio
	sc := h.Scenario
	// money really available = everything credited minus the rated price of all usage
	// reported so far; the reservation the CHF *claims* to hold is not trusted
	creditedC := map[string]int64{}
	usedC := map[string]int64{}
	for _, a := range sc.Accounts {
		creditedC[acctKey(a.Supi, a.RG)] = a.Quota
	}
	for _, o := range h.Ops {
		if !o.Done || o.Skipped != "" {
			continue
		}
		if o.Op.Kind == "recharge" {
			if _, ok := creditedC[acctKey(o.Op.Supi, o.Op.RG)]; ok {
				creditedC[acctKey(o.Op.Supi, o.Op.RG)] += o.Op.TopUp
			}
		}
		if (o.Op.Kind == "create" || o.Op.Kind == "update" || o.Op.Kind == "release") && is2xx(o.Status) {
			for rg, u := range onlineUsed(o) {
				usedC[acctKey(o.Op.Supi, rg)] += u
			}
		}
		for _, st := range o.Post {
			if st.HasQuota && st.Quota < 0 {
				v.add("C06", "negative-balance", "after="+o.Op.Kind, o.Op.ID,
					"after op %d (%s) balance of %s rg %d is %d", o.Op.ID, o.Op.Kind, st.Supi, st.RG, st.Quota)
				return v.list // everything after an overdraft is a consequence
			}
		}
		if o.Op.Kind != "update" || o.Status != 200 || o.Faulted {
			continue // nothing but termination is required of an op whose exchange with a peer was disturbed
		}
		used := onlineUsed(o)
		for _, u := range o.Op.Units {
			if u.NoReq || !hasOnline(o, u.RG) {
				continue
			}
			a := sc.account(o.Op.Supi, u.RG)
			cost, ok := intCost(a)
			pre, ok2 := stateOf(o.Pre, o.Op.Supi, u.RG)
			if !ok || !ok2 || !pre.HasQuota {
				continue
			}
			avail := pre.Quota + pre.Reserved - cost*used[u.RG]
			if real := creditedC[acctKey(o.Op.Supi, u.RG)] - cost*usedC[acctKey(o.Op.Supi, u.RG)]; real < avail {
				avail = real // the CHF's books claim more unconsumed reservation than money was ever taken from the account
			}
			buys := avail / cost
			if avail < 0 {
				buys = 0
			}
			if buys >= int64(u.Req) {
				continue
			}
			var ui *UnitInfo
			for i := range o.Units {
				if o.Units[i].RG == u.RG {
					ui = &o.Units[i]
				}
			}
			granted := int64(0)
			fui := false
			if ui != nil {
				fui = ui.FUI
				if ui.HasGrant {
					granted = int64(ui.Granted)
				}
			}
			if granted > buys {
				v.add("C06", "overgrant", overgrantSig(o, u.RG, pre, cost, used[u.RG], int64(u.Req)), o.Op.ID,
					"op %d: %s rg %d balance %d + reservation %d - cost %d x used %d = %d buys %d units, requested %d, granted %d",
					o.Op.ID, o.Op.Supi, u.RG, pre.Quota, pre.Reserved, cost, used[u.RG], avail, buys, u.Req, granted)
				if len(v.list) >= 6 {
					return v.list
				}
				continue
			}
			if !fui {
				v.add("C06", "no-final-unit-indication", "rated="+ratedMode(h, o, u.RG), o.Op.ID,
					"op %d: %s rg %d available money %d buys %d < requested %d but the response carries no final-unit indication (granted %d, request rated in %s mode)",
					o.Op.ID, o.Op.Supi, u.RG, avail, buys, u.Req, granted, ratedMode(h, o, u.RG))
				if len(v.list) >= 6 {
					return v.list
				}
			}
		}
	}
	return v.list
}

// ratedMode tells from the wire whether the CHF rated this request for this rating group
// with a debit (final pricing) or a reserve service-usage request.
func ratedMode(h *History, o *OpResult, rg int32) string {
	mode := "none"
	for _, m := range h.Msgs {
		if m.Task == o.Task && m.Op == o.Op.ID && m.Request && m.Cmd == 111 && m.F.HasSR && m.F.ServiceID == int64(rg) {
			if m.F.ReqSubType == 2 {
				return "debit"
			}
			mode = "reserve"
		}
	}
	return mode
}

// overgrantSig classifies an over-grant by what was true before the request.
func overgrantSig(o *OpResult, rg int32, pre AcctState, cost, used, req int64) string {
	need := req * cost
	switch {
	case pre.Reserved-cost*used > 0:
		return "precondition=reservation-partly-unconsumed"
	case pre.Quota < need-(pre.Reserved-cost*used):
		return "precondition=balance-below-requested-quota"
	}
	return "precondition=other"
}

// ---------------------------------------------------------------- sessions

type sessInfo struct {
	Name       string
	Supi       string
	Ref        string
	CreateOp   *OpResult
	Reported   []ContainerRec // containers reported in accepted requests, in order
	Released   bool
	PartialOps []int
}

func sessions(h *History) (map[string]*sessInfo, []string) {
	m := map[string]*sessInfo{}
	var order []string
	for _, o := range append(append([]*OpResult(nil), h.Ops...), h.Epilogue...) {
		if !o.Done || o.Skipped != "" {
			continue
		}
		switch o.Op.Kind {
		case "create":
			if o.Status == 201 && o.Ref != "" && !o.Op.OneTime {
				s := &sessInfo{Name: o.Op.Sess, Supi: o.Op.Supi, Ref: o.Ref, CreateOp: o}
				s.Reported = append(s.Reported, o.Reported...)
				m[o.Op.Sess] = s
				order = append(order, o.Op.Sess)
			}
		case "update", "release":
			if o.Op.RefMode != "" {
				continue
			}
			s := m[o.Op.Sess]
			if s == nil || !is2xx(o.Status) {
				continue
			}
			s.Reported = append(s.Reported, o.Reported...)
			if o.Op.Kind == "release" {
				s.Released = true
			}
		}
	}
	return m, order
}

func sameContainer(a cdrContainer, b ContainerRec) bool {
	return a.RG == int64(b.RG) && a.Seq == int64(b.Seq) && a.Vol == int64(b.Vol) && a.Up == int64(b.Up) &&
		a.Down == int64(b.Down) && a.SSU == int64(b.SSU)
}

// ---------------------------------------------------------------- C03

// CheckC03: every file image ever written is a well-formed TS 32.297 file.
func CheckC03(h *History) []Violation {
	var v vio
	// A file written through a handle passes through transient states (kind "write"); what
	// must be well-formed is every consistent point: whole-file writes, sync, close, and
	// whatever is on disk for a path when the op that wrote it returns.
	lastOfOp := map[int]bool{}
	for _, o := range h.Ops {
		seen := map[string]int{}
		for i := o.PreWrites; i < o.PostWrites && i < len(h.Journal); i++ {
			seen[h.Journal[i].Path] = i
		}
		for _, i := range seen {
			lastOfOp[i] = true
		}
	}
	for i, w := range h.Journal {
		if w.Kind == "write" && !lastOfOp[i] {
			continue
		}
		_, errs := readCdrFile(w.Data)
		if len(errs) == 0 {
			continue
		}
		field := errs[0]
		if k := strings.Index(field, ":"); k > 0 {
			field = field[:k]
		}
		if strings.HasPrefix(field, "record ") {
			field = "record-payload"
		}
		opID := -1
		var wop *OpResult
		for _, o := range h.Ops {
			if o.PreWrites <= i && i < o.PostWrites {
				opID = o.Op.ID
				wop = o
			}
		}
		sig := "field=" + field
		img, _ := readCdrFile(w.Data)
		if field == "record-payload" && img != nil && img.BadRecord != nil && len(img.BadRecord) > 65535 && wop != nil {
			// a record larger than the 16-bit CdrLength can express: say how it came about
			// The culprit is the op that made the record oversize.  Writes are checked in
			// order, so this is the first image in which the record is too large: if the op
			// that wrote it added usage to this record, it is the culprit; otherwise (it only
			// re-dumped a record that was already too large, e.g. one opened by a create,
			// which writes no file itself) the culprit is the last earlier op that did.
			sizes := containerSizes(img.BadRecord)
			ownOf := func(o *OpResult) int {
				n := 0
				for _, c := range o.Reported {
					n += sizes[int64(c.Seq)]
				}
				return n
			}
			culprit, own := wop, ownOf(wop)
			if own == 0 {
				for _, o := range h.Ops {
					if o == wop {
						break
					}
					if n := ownOf(o); n > 0 {
						culprit, own = o, n
					}
				}
			}
			cause := "record-grew-past-limit"
			if own > 65535-1024 {
				cause = "single-request-exceeds-record"
			}
			sig = "field=record-payload oversize op=" + culprit.Op.Kind + " cause=" + cause
		}
		v.add("C03", "malformed-file", sig, opID,
			"write #%d of %s (%d bytes, op %d): %s", i, w.Path, len(w.Data), opID, strings.Join(errs, "; "))
		if len(v.list) >= 4 {
			return v.list
		}
	}
	return v.list
}

func sizeClass(n int) string {
	if n > 65535 {
		return ">64K"
	}
	return "<=64K"
}

// ---------------------------------------------------------------- C02

// CheckC02: usage recorded exactly once, in the right session's record(s); header fields.
func CheckC02(h *History) []Violation {
	var v vio
	sess, order := sessions(h)
	byRef := map[string]*sessInfo{}
	for _, n := range order {
		byRef[sess[n].Supi+"|"+sess[n].Ref] = sess[n]
	}
	tz := h.Scenario.Cfg.TZOffsetSec

	// (a) in-memory records after every op (sequential) — exactness per session
	reported := map[string][]ContainerRec{}
	for _, o := range h.Ops {
		if !o.Done || o.Skipped != "" {
			continue
		}
		if s := sess[o.Op.Sess]; s != nil && o.Op.RefMode == "" && (o.Op.Kind == "create" && o.Status == 201 || (o.Op.Kind == "update" || o.Op.Kind == "release") && is2xx(o.Status)) {
			reported[o.Op.Sess] = append(reported[o.Op.Sess], o.Reported...)
		}
		if o.Mem == nil {
			continue
		}
		for _, name := range order {
			s := sess[name]
			if s.Supi != o.Op.Supi || s.CreateOp.StartNs > o.StartNs {
				continue
			}
			var got []cdrContainer
			for _, r := range o.Mem {
				if r.HasSession && r.Session == s.Ref {
					got = append(got, r.Containers...)
				}
			}
			want := reported[name]
			if msg := diffContainers(got, want); msg != "" {
				v.add("C02", "record-content", classifyDiff(got, want, o, sess, name), o.Op.ID,
					"after op %d (%s on session %s) the records of session %s (%s) hold %d containers, %d were reported: %s",
					o.Op.ID, o.Op.Kind, o.Op.Sess, name, s.Ref, len(got), len(want), msg)
				return v.list
			}
		}
		// a container must never sit in a record of another subscriber's session
	}

	// (b) every file image: header fields, attribution, no duplicates
	for i, w := range h.Journal {
		img, errs := readCdrFile(w.Data)
		if len(errs) > 0 || img == nil {
			continue // C03's business
		}
		supi := strings.TrimSuffix(strings.TrimPrefix(w.Path, "/tmp/"), ".cdr")
		seen := map[int64]bool{}
		for ri, p := range img.Payloads {
			rec, err := decodeCHFRecord(p)
			if err != nil {
				continue
			}
			if !rec.HasSession {
				continue // event-based record
			}
			s := byRef[supi+"|"+rec.SessionID]
			if s == nil {
				v.add("C02", "file-unknown-session", "", -1, "write #%d %s record %d names session %q which no create returned", i, w.Path, ri, rec.SessionID)
				return v.list
			}
			if !rec.HasSubscriber || rec.SubscriberType != 1 || "imsi-"+rec.SubscriberData != s.Supi {
				v.add("C02", "file-header", "field=subscriber", s.CreateOp.Op.ID, "write #%d record %d of session %s: subscriber %d/%q, expected IMSI %q", i, ri, s.Name, rec.SubscriberType, rec.SubscriberData, s.Supi)
				return v.list
			}
			if !rec.HasChargingID || rec.ChargingID != int64(s.CreateOp.Op.ChargingID) {
				v.add("C02", "file-header", "field=chargingId", s.CreateOp.Op.ID, "write #%d record %d of session %s: charging id %d, create gave %d", i, ri, s.Name, rec.ChargingID, s.CreateOp.Op.ChargingID)
				return v.list
			}
			if rec.ConsumerName != s.CreateOp.Op.Consumer || rec.Functionality != 1 {
				v.add("C02", "file-header", "field=consumer", s.CreateOp.Op.ID, "write #%d record %d of session %s: consumer %q functionality %d, create gave %q SMF(1)", i, ri, s.Name, rec.ConsumerName, rec.Functionality, s.CreateOp.Op.Consumer)
				return v.list
			}
			if co := &s.CreateOp.Op; rec.ConsumerV4 != co.ConsumerV4 || (co.ConsumerV4 != "" && rec.ConsumerV4Alt != 2) ||
				rec.ConsumerV6 != co.ConsumerV6 || (co.ConsumerV6 != "" && rec.ConsumerV6Alt != 3) || rec.ConsumerFqdn != co.ConsumerFqdn {
				v.add("C02", "file-header", "field=consumer-address", co.ID,
					"write #%d record %d of session %s: consumer addresses v4=%q(alt %d) v6=%q(alt %d) fqdn=%q, create gave v4=%q v6=%q fqdn=%q",
					i, ri, s.Name, rec.ConsumerV4, rec.ConsumerV4Alt, rec.ConsumerV6, rec.ConsumerV6Alt, rec.ConsumerFqdn, co.ConsumerV4, co.ConsumerV6, co.ConsumerFqdn)
				return v.list
			}
			if !openingTimeOK(rec.OpeningTime, s.CreateOp, tz) {
				v.add("C02", "opening-time", tzClass(tz), s.CreateOp.Op.ID,
					"write #%d record %d of session %s: recordOpeningTime % x, create ran at %s (zone offset %d s), expected % x",
					i, ri, s.Name, rec.OpeningTime, simTime(s.CreateOp.StartNs, tz).Format(time.RFC3339), tz, expectedOpening(s.CreateOp.StartNs, tz))
				return v.list
			}
			// attribution: the record's containers are a contiguous run of the session's reported list
			if msg := subsequenceOf(rec.Containers, s.Reported); msg != "" {
				v.add("C02", "file-attribution", "", -1, "write #%d record %d (session %s): %s", i, ri, s.Name, msg)
				return v.list
			}
			for _, c := range rec.Containers {
				if c.HasSeq && c.Seq != 0 {
					if seen[c.Seq] {
						v.add("C02", "file-duplicate", "", -1, "write #%d %s: container seq %d appears twice in one file image", i, w.Path, c.Seq)
						return v.list
					}
					seen[c.Seq] = true
				}
			}
		}
	}

	// (c) cause for closing and completeness of the image written by each op
	reported = map[string][]ContainerRec{}
	for _, o := range h.Ops {
		if !o.Done || o.Skipped != "" || o.Op.RefMode != "" {
			continue
		}
		s := sess[o.Op.Sess]
		if s == nil {
			continue
		}
		ok := o.Op.Kind == "create" && o.Status == 201 || (o.Op.Kind == "update" || o.Op.Kind == "release") && is2xx(o.Status)
		if !ok {
			continue
		}
		reported[o.Op.Sess] = append(reported[o.Op.Sess], o.Reported...)
		if o.PostWrites <= o.PreWrites || o.PostWrites > len(h.Journal) {
			continue
		}
		last := h.Journal[o.PostWrites-1]
		img, errs := readCdrFile(last.Data)
		if len(errs) > 0 || img == nil {
			continue
		}
		var got []cdrContainer
		var recs []*cdrRecord
		for _, p := range img.Payloads {
			rec, err := decodeCHFRecord(p)
			if err != nil || !rec.HasSession || rec.SessionID != s.Ref {
				continue
			}
			recs = append(recs, rec)
			got = append(got, rec.Containers...)
		}
		switch o.Op.Kind {
		case "update":
			if msg := diffContainers(got, reported[o.Op.Sess]); msg != "" {
				v.add("C02", "file-content", classifyDiff(got, reported[o.Op.Sess], o, sess, o.Op.Sess), o.Op.ID,
					"the CDR file written by op %d (update on session %s) holds %d containers for that session, %d were reported: %s",
					o.Op.ID, o.Op.Sess, len(got), len(reported[o.Op.Sess]), msg)
				return v.list
			}
		case "release":
			if len(recs) == 0 {
				v.add("C02", "release-record-missing", "", o.Op.ID, "the CDR file written by release op %d has no record of session %s", o.Op.ID, o.Op.Sess)
				return v.list
			}
			tail := reported[o.Op.Sess]
			if len(o.Reported) > 0 {
				if msg := suffixOf(got, tail, len(o.Reported)); msg != "" {
					v.add("C02", "file-content", "op=release", o.Op.ID, "release op %d on session %s: %s", o.Op.ID, o.Op.Sess, msg)
					return v.list
				}
			}
			for _, rec := range recs[len(recs)-1:] {
				if !rec.HasCause || rec.Cause != 0 {
					v.add("C02", "cause-for-closing", "want=normal", o.Op.ID, "released session %s: cause for record closing is %d, expected 0 (normal release)", o.Op.Sess, rec.Cause)
					return v.list
				}
			}
		}
		// partial closure: the first image written by an op that asked for a partial record has cause 1
		if o.Op.Kind == "update" && partialAsked(o) && o.PostWrites-o.PreWrites >= 2 {
			first := h.Journal[o.PreWrites]
			if img, errs := readCdrFile(first.Data); len(errs) == 0 && img != nil {
				for _, p := range img.Payloads {
					rec, err := decodeCHFRecord(p)
					if err != nil || rec.SessionID != s.Ref {
						continue
					}
					if rec.Cause != 1 {
						v.add("C02", "cause-for-closing", "want=partial", o.Op.ID, "partial closure by op %d on session %s: cause for record closing is %d, expected 1 (partial record)", o.Op.ID, o.Op.Sess, rec.Cause)
						return v.list
					}
				}
			}
		}
	}
	return v.list
}

func partialAsked(o *OpResult) bool {
	if o.Op.Final || len(o.Op.Triggers) == 0 {
		return false
	}
	for _, c := range o.Reported {
		if c.Online {
			return true
		}
	}
	return false
}

func simTime(ns int64, tzSec int) time.Time {
	return time.Date(2000, 1, 1, 0, 0, 0, 0, time.UTC).Add(time.Duration(ns) + simEpochOffset).In(time.FixedZone("SIM", tzSec))
}

// simEpochOffset is the simulated instant of rt.Begin relative to the bubble's start
// (2000-01-01 00:00:00 UTC); the boot sequence sleeps 1 ms before the run begins.
var simEpochOffset = time.Millisecond

func expectedOpening(ns int64, tz int) []byte {
	t := simTime(ns, tz)
	return bcdTime(t.Year(), int(t.Month()), t.Day(), t.Hour(), t.Minute(), t.Second(), tz)
}

func openingTimeOK(got []byte, create *OpResult, tz int) bool {
	return bytes.Equal(got, expectedOpening(create.StartNs, tz)) || bytes.Equal(got, expectedOpening(create.EndNs, tz))
}

func tzClass(tz int) string {
	switch {
	case tz < 0 && tz%3600 != 0:
		return "zone=negative-non-hour"
	case tz < 0:
		return "zone=negative"
	case tz%3600 != 0:
		return "zone=non-hour"
	case tz == 0:
		return "zone=utc"
	}
	return "zone=positive-hour"
}

func diffContainers(got []cdrContainer, want []ContainerRec) string {
	n := len(got)
	if len(want) < n {
		n = len(want)
	}
	for i := 0; i < n; i++ {
		if !sameContainer(got[i], want[i]) {
			return fmt.Sprintf("position %d: recorded {rg %d seq %d vol %d up %d down %d ssu %d}, reported {rg %d seq %d vol %d up %d down %d ssu %d}",
				i, got[i].RG, got[i].Seq, got[i].Vol, got[i].Up, got[i].Down, got[i].SSU,
				want[i].RG, want[i].Seq, want[i].Vol, want[i].Up, want[i].Down, want[i].SSU)
		}
	}
	if len(got) < len(want) {
		return fmt.Sprintf("%d reported container(s) missing, first missing seq %d", len(want)-len(got), want[len(got)].Seq)
	}
	if len(got) > len(want) {
		return fmt.Sprintf("%d extra container(s), first extra seq %d", len(got)-len(want), got[len(want)].Seq)
	}
	return ""
}

// classifyDiff tells loss from duplication from misattribution.
func classifyDiff(got []cdrContainer, want []ContainerRec, o *OpResult, sess map[string]*sessInfo, name string) string {
	wantSeq := map[int64]bool{}
	for _, w := range want {
		wantSeq[int64(w.Seq)] = true
	}
	seen := map[int64]int{}
	foreign := false
	for _, g := range got {
		seen[g.Seq]++
		if !wantSeq[g.Seq] {
			foreign = true
		}
	}
	nsess := 0
	for _, s := range sess {
		if s.Supi == sess[name].Supi {
			nsess++
		}
	}
	multi := "sessions=1"
	if nsess > 1 {
		multi = "sessions>1"
	}
	for _, c := range seen {
		if c > 1 {
			return "kind=duplicated " + multi
		}
	}
	if foreign {
		return "kind=foreign-container " + multi
	}
	if len(got) < len(want) {
		return "kind=missing " + multi
	}
	return "kind=order-or-value " + multi
}

// subsequenceOf: rec must be a contiguous run of list.
func subsequenceOf(rec []cdrContainer, list []ContainerRec) string {
	if len(rec) == 0 {
		return ""
	}
	for start := 0; start+len(rec) <= len(list); start++ {
		ok := true
		for i := range rec {
			if !sameContainer(rec[i], list[start+i]) {
				ok = false
				break
			}
		}
		if ok {
			return ""
		}
	}
	return fmt.Sprintf("its %d containers (first seq %d) are not a contiguous run of the %d containers reported for that session", len(rec), rec[0].Seq, len(list))
}

func suffixOf(got []cdrContainer, all []ContainerRec, n int) string {
	if len(got) < n {
		return fmt.Sprintf("the record holds %d containers but the request itself reported %d", len(got), n)
	}
	for i := 0; i < n; i++ {
		if !sameContainer(got[len(got)-n+i], all[len(all)-n+i]) {
			return fmt.Sprintf("the record does not end with the %d containers this request reported", n)
		}
	}
	return ""
}

// ---------------------------------------------------------------- C12

func CheckC12(h *History) (out []Violation) {
	var v vio
	if h.Scenario.Cfg.Concurrent {
		won, releases := map[string]int{}, map[string]int{}
		// requests racing with a release: statuses and "no effect once released"
		for _, o := range h.Ops {
			if !o.Done || o.Skipped != "" {
				continue
			}
			switch o.Op.Kind {
			case "release":
				// several releases may race for one session: exactly one of them wins
				if o.Status == 204 {
					won[o.Op.Sess]++
				} else if !is4xx(o.Status) {
					v.add("C12", "status", "op=release concurrent", o.Op.ID, "release op %d answered %d, expected 204 (or 4xx when another release of the session won)", o.Op.ID, o.Status)
					return v.list
				}
				releases[o.Op.Sess]++
			case "update":
				if o.Status != 200 && !(o.Op.Role == "may-reject" && is4xx(o.Status)) {
					v.add("C12", "status", "op=update concurrent", o.Op.ID, "update op %d answered %d (a request racing with the release of its session may be answered 200 or 4xx)", o.Op.ID, o.Status)
					return v.list
				}
			}
		}
		for sess, n := range releases {
			if won[sess] != 1 {
				v.add("C12", "status", "op=release concurrent winners", -1, "%d release requests raced for session %s and %d of them were answered 204, expected exactly one", n, sess, won[sess])
				return v.list
			}
		}
		return append(v.list, CheckReleaseRace(h, "C12")...)
	}
	notify := map[string]string{} // supi -> registered notify URI
	known := map[string]bool{}
	liveRef := map[string]string{}   // reference -> name of the open session it was issued for
	refOfSess := map[string]string{} // session name -> its reference
	type owedNotif struct {
		op   *OpResult
		url  string
		rg   int32
		done bool
	}
	var owed []*owedNotif
	defer func() {
		if len(v.list) > 0 {
			return
		}
		defer func() { out = v.list }()
		// Every notification the SMF side received is the one owed for a recharge that had started
		// by then (same endpoint, that rating group and no other), and every recharge got its one.
		for _, n := range h.Notifs {
			var hit *owedNotif
			var near *owedNotif
			for _, w := range owed {
				if w.done || w.op.StartNs > n.At {
					continue
				}
				if near == nil {
					near = w
				}
				if n.Method == "POST" && n.URL == w.url && len(n.RGs) == 1 && n.RGs[0] == w.rg {
					hit = w
					break
				}
			}
			switch {
			case hit != nil:
				hit.done = true
			case near != nil && (n.Method != "POST" || n.URL != near.url):
				near.done = true
				v.add("C12", "notification-target", "", near.op.Op.ID, "recharge op %d notified %s %s, the consumer registered %s", near.op.Op.ID, n.Method, n.URL, near.url)
			case near != nil:
				near.done = true
				v.add("C12", "notification-content", "", near.op.Op.ID, "recharge op %d for rating group %d notified groups %v", near.op.Op.ID, near.rg, n.RGs)
			default:
				v.add("C12", "notification-count", "unexpected", -1, "a notification (%s %s, groups %v at %d ns) corresponds to no recharge of a known subscriber: every recharge already has its one notification, or none had started", n.Method, n.URL, n.RGs, n.At)
			}
			if len(v.list) > 0 {
				return
			}
		}
		for _, w := range owed {
			if !w.done {
				v.add("C12", "notification-count", "n=0", w.op.Op.ID, "recharge op %d (rating group %d, registered endpoint %s) was answered 204 but no notification for it ever reached the endpoint", w.op.Op.ID, w.rg, w.url)
				return
			}
		}
	}()
	for _, o := range h.Ops {
		if !o.Done || o.Skipped != "" {
			continue
		}
		op := &o.Op
		valid := op.RefMode == ""
		if op.Corrupt != "" {
			// nothing is required of the answer to a body with a wrongly typed member; answered 4xx it
			// was rejected and the session is still the client's (the following requests say so);
			// answered otherwise the client cannot know what was carried out: stop judging this history
			if is4xx(o.Status) {
				continue
			}
			return v.list
		}
		switch op.Kind {
		case "create":
			uri := op.NotifyURI
			if uri == "" {
				uri = "http://smf.sim/notify/" + op.Sess
			}
			if op.OneTime {
				continue
			}
			if o.Status != 201 {
				v.add("C12", "status", "op=create", op.ID, "create op %d answered %d, expected 201", op.ID, o.Status)
				return v.list
			}
			if o.Ref == "" || !strings.HasSuffix(o.Location, "/"+o.RefWire) || !strings.Contains(o.Location, "/chargingdata/") {
				v.add("C12", "location", "", op.ID, "create op %d: Location %q", op.ID, o.Location)
				return v.list
			}
			if o.RespISN == nil || *o.RespISN != o.ISN {
				v.add("C12", "echo", "op=create", op.ID, "create op %d: response does not echo invocationSequenceNumber %d: %s", op.ID, o.ISN, o.RespBody)
				return v.list
			}
			// "the new session reference": not the reference of a session that is still open
			if other, dup := liveRef[o.Ref]; dup {
				v.add("C12", "location", "not-new", op.ID, "create op %d (session %s): Location %q ends in the reference of session %s, which is still open", op.ID, op.Sess, o.Location, other)
				return v.list
			}
			liveRef[o.Ref] = op.Sess
			refOfSess[op.Sess] = o.Ref
			notify[op.Supi] = uri
			known[op.Supi] = true
		case "update":
			if valid && known[op.Supi] {
				if o.Status != 200 {
					v.add("C12", "status", "op=update", op.ID, "update op %d on a live session answered %d, expected 200 (%s)", op.ID, o.Status, o.RespBody)
					return v.list
				}
				if o.RespISN == nil || *o.RespISN != o.ISN || !o.RespHasTS {
					v.add("C12", "echo", "op=update", op.ID, "update op %d: response must echo sequence number %d and carry a timestamp: %s", op.ID, o.ISN, o.RespBody)
					return v.list
				}
				continue
			}
			fallthrough
		case "release":
			if valid && known[op.Supi] && op.Kind == "release" {
				if o.Status != 204 {
					v.add("C12", "status", "op=release", op.ID, "release op %d of a live session answered %d, expected 204", op.ID, o.Status)
					return v.list
				}
				if len(strings.TrimSpace(o.RespBody)) != 0 {
					v.add("C12", "release-body", "", op.ID, "release op %d answered with a body: %s", op.ID, o.RespBody)
					return v.list
				}
				delete(liveRef, refOfSess[op.Sess])
				continue
			}
			// names an unknown subscriber or an unknown / foreign reference
			if !is4xx(o.Status) {
				v.add("C12", "rejection-status", "op="+op.Kind+" ref="+refClass(op, known), op.ID,
					"%s op %d names %s and was answered %d, expected 4xx", op.Kind, op.ID, refClass(op, known), o.Status)
				return v.list
			}
			if o.PreSnap != o.PostSnap {
				v.add("C12", "rejection-effect", "op="+op.Kind+" ref="+refClass(op, known)+" "+snapDiffClass(o.PreSnap, o.PostSnap), op.ID,
					"%s op %d names %s, was answered %d, but changed state:\n%s", op.Kind, op.ID, refClass(op, known), o.Status, snapDiff(o.PreSnap, o.PostSnap))
				return v.list
			}
		case "recharge":
			if known[op.Supi] {
				if o.Status != 204 {
					v.add("C12", "status", "op=recharge", op.ID, "recharge op %d for a known subscriber answered %d, expected 204", op.ID, o.Status)
					return v.list
				}
				// exactly one notification is owed for this recharge (matched below: the statement
				// does not say that it has been sent by the time the 204 is produced)
				owed = append(owed, &owedNotif{op: o, url: notify[op.Supi], rg: op.RG})
			} else {
				if o.PreSnap != o.PostSnap && o.Op.TopUp == 0 {
					v.add("C12", "rejection-effect", "op=recharge", op.ID, "recharge for unknown subscriber changed state:\n%s", snapDiff(o.PreSnap, o.PostSnap))
					return v.list
				}
			}
		}
	}
	return v.list
}

func refClass(op *Op, known map[string]bool) string {
	switch {
	case !known[op.Supi]:
		return "unknown-subscriber"
	case op.RefMode == "stale":
		return "stale-reference"
	case op.RefMode == "unknown":
		return "unknown-reference"
	case strings.HasPrefix(op.RefMode, "foreign:"):
		return "foreign-reference"
	case strings.HasPrefix(op.RefMode, "literal:"):
		return "literal-reference"
	}
	return "reference"
}

func snapDiff(a, b string) string {
	as, bs := strings.Split(a, "\n"), strings.Split(b, "\n")
	am := map[string]bool{}
	for _, l := range as {
		am[l] = true
	}
	bm := map[string]bool{}
	for _, l := range bs {
		bm[l] = true
	}
	var out []string
	for _, l := range as {
		if !bm[l] {
			out = append(out, "- "+l)
		}
	}
	for _, l := range bs {
		if !am[l] {
			out = append(out, "+ "+l)
		}
	}
	sort.Strings(out)
	if len(out) > 12 {
		out = out[:12]
	}
	return strings.Join(out, "\n")
}

func snapDiffClass(a, b string) string {
	d := snapDiff(a, b)
	var kinds []string
	for _, k := range []string{"quota=", "reserved[", "records", "cdr[", "file ", "notify="} {
		if strings.Contains(d, k) {
			kinds = append(kinds, strings.Trim(k, "=[ "))
		}
	}
	return "changed=" + strings.Join(kinds, "+")
}

// ---------------------------------------------------------------- C11

// CheckPromptDuringNotification: with every peer prompt, a request of a subscriber must not
// wait for that subscriber's outstanding recharge notification.
func CheckPromptDuringNotification(h *History, prop string) []Violation {
	var v vio
	const bound = 5_000_000_000
	ops := append([]*OpResult(nil), h.Callbacks...)
	for _, o := range h.Ops {
		if o.Op.Role == "during-notification" {
			ops = append(ops, o)
		}
	}
	for _, o := range ops {
		if !o.Done {
			v.add(prop, "blocked-by-notification", "op="+o.Op.Kind, o.Op.ID, "%s sent for %s while its recharge notification was outstanding never returned; parked:\n%s", o.Op.Kind, o.Op.Supi, o.Stacks)
			return v.list
		}
		if d := o.EndNs - o.StartNs; d > bound {
			v.add(prop, "blocked-by-notification", "op="+o.Op.Kind, o.Op.ID,
				"%s sent for %s while its recharge notification was outstanding took %.1f s of simulated time (every peer answers within milliseconds): the subscriber was blocked until the notification ended",
				o.Op.Kind, o.Op.Supi, float64(d)/1e9)
			return v.list
		}
		if is5xx(o.Status) {
			v.add(prop, "5xx", "role=callback", o.Op.ID, "%s sent during a notification answered %d", o.Op.Kind, o.Status)
			return v.list
		}
	}
	if h.Scenario.Cfg.SinkCallback != nil && len(h.Notifs) > 0 && len(h.Callbacks) == 0 && !h.Aborted {
		v.add(prop, "blocked-by-notification", "callback-missing", -1, "the request the SMF sent from its notification handler never completed")
	}
	return v.list
}

func CheckC11(h *History) []Violation {
	var v vio
	v.list = append(v.list, CheckPromptDuringNotification(h, "C11")...)
	for _, o := range h.Ops {
		if o.Skipped != "" || o.Op.Kind == "sleep" {
			continue
		}
		role := o.Op.Role
		if !o.Done {
			cls := "probe-no-return"
			if role == "followup" {
				cls = "subscriber-wedged"
			}
			v.add("C11", cls, "site="+wedgeSite(o.Stacks), o.Op.ID,
				"op %d (%s %s %s %s) did not return within the simulated budget after probe %q; parked goroutines:\n%s",
				o.Op.ID, role, o.Op.Kind, o.Op.Method, o.Op.Path, probeName(h, o), o.Stacks)
			return v.list
		}
		if is5xx(o.Status) {
			v.add("C11", "5xx", "role="+role+" route="+routeOf(&o.Op)+" cause="+panicCause(strings.Join(o.Panics, ";"))+" site="+panicSite(o.Panics), o.Op.ID,
				"op %d (%s %s %s %s, probe %q) answered %d; recovered panics: %v\nrequest body: %s", o.Op.ID, role, o.Op.Kind, o.Op.Method, o.Op.Path, probeName(h, o), o.Status, o.Panics, string(o.Op.Body))
			if len(v.list) >= 4 {
				return v.list
			}
		}
	}
	return v.list
}

func probeName(h *History, o *OpResult) string {
	for _, p := range h.Ops {
		if p.Op.Role == "probe" {
			return p.Op.Sess // generators put the mutation name into Sess of the probe op
		}
	}
	return ""
}

func routeOf(op *Op) string {
	switch op.Kind {
	case "create":
		return "POST /chargingdata"
	case "update":
		return "POST /chargingdata/:ref/update"
	case "release":
		return "POST /chargingdata/:ref/release"
	case "recharge":
		return "PUT /recharging/:info"
	}
	p := op.Path
	switch {
	case strings.HasSuffix(p, "/update"):
		return "POST /chargingdata/:ref/update"
	case strings.HasSuffix(p, "/release"):
		return "POST /chargingdata/:ref/release"
	case strings.HasSuffix(p, "/chargingdata"):
		return "POST /chargingdata"
	case strings.Contains(p, "/recharging"):
		return op.Method + " /recharging/:info"
	}
	return op.Method + " other"
}

func panicSite(p []string) string {
	if len(p) == 0 {
		return "none"
	}
	if i := strings.LastIndex(p[0], " @ "); i >= 0 {
		return p[0][i+3:]
	}
	return "unknown"
}

func panicCause(body string) string {
	switch {
	case strings.Contains(body, "nil pointer"):
		return "nil-dereference"
	case strings.Contains(body, "index out of range"):
		return "index-out-of-range"
	case strings.Contains(body, "slice bounds"):
		return "slice-bounds"
	case strings.Contains(body, "divide"):
		return "divide-by-zero"
	}
	return "other"
}

func min(a, b int) int {
	if a < b {
		return a
	}
	return b
}
