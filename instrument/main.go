// instrument prepares the simulated build of /repo without touching it.
//
// It reads the *current* working tree, rewrites copies of selected source files by
// text edits at AST-derived offsets (so line numbers are unchanged), writes them to a
// scratch directory and emits an overlay.json for `go build -overlay` that also maps
// the harness sources under /verif/sim to /repo/internal/verifsim.
//
// Edits:
//   - sync.Mutex / sync.RWMutex / sync.Pool -> rt.Mutex / rt.RWMutex / rt.Pool (all instrumented files)
//   - os.WriteFile/ReadFile/OpenFile/Create/Open/CreateTemp/Remove/Rename/Stat/Lstat/Chmod/Mkdir(All), os.File -> rt.* (cdr/cdrFile, internal/cgf, internal/sbi/processor)
//   - rt.Yield(<site>) before statements                               (yield packages, when -yields)
//   - package-level variables initialised with a channel, timer, ticker, condition variable or
//     context (objects that belong to the bubble they were made in) are made again at the start
//     of every simulated run: `func init() { rt.OnBoot(func() { v = <same expression> }) }`
//
// A construct that is not recognised is left untouched; a file that does not parse is
// copied unchanged (the compiler will then report the real error).
package main

import (
	"encoding/json"
	"flag"
	"fmt"
	"go/ast"
	"go/parser"
	"go/token"
	"os"
	"path/filepath"
	"sort"
	"strings"
)

const rtImport = `rt "github.com/free5gc/chf/internal/verifsim/rt"`

type edit struct {
	off  int
	end  int // replace [off,end) ; insertion when off==end
	text string
	prio int
}

var (
	lockDirs  = []string{"internal", "pkg", "cdr/cdrFile", "cdr/cdrConvert"}
	fileDirs  = []string{"cdr/cdrFile", "internal/cgf", "internal/sbi/processor"}
	yieldDirs = []string{"internal/context", "internal/sbi/processor", "internal/abmf", "internal/rating", "internal/sbi", "internal/cgf", "cdr/cdrFile"}
)

// the part of package os that the CDR file code may use; everything listed exists in rt
var fileAPI = map[string]bool{"WriteFile": true, "ReadFile": true, "OpenFile": true, "Create": true, "Open": true,
	"Remove": true, "Rename": true, "File": true, "CreateTemp": true, "Stat": true, "Lstat": true, "Chmod": true, "MkdirAll": true, "Mkdir": true}

func under(rel string, dirs []string) bool {
	for _, d := range dirs {
		if rel == d || strings.HasPrefix(rel, d+"/") {
			return true
		}
	}
	return false
}

// bubbleBound reports whether the expression makes a channel, timer, ticker, condition
// variable or context: objects that testing/synctest ties to the bubble they were made in.
func bubbleBound(e ast.Expr) bool {
	found := false
	ast.Inspect(e, func(n ast.Node) bool {
		if _, ok := n.(*ast.FuncLit); ok {
			return false // made when the function runs, not when the package is initialised
		}
		c, ok := n.(*ast.CallExpr)
		if !ok {
			return true
		}
		switch fn := c.Fun.(type) {
		case *ast.Ident:
			if fn.Name == "make" && len(c.Args) > 0 {
				if _, ok := c.Args[0].(*ast.ChanType); ok {
					found = true
				}
			}
		case *ast.SelectorExpr:
			if x, ok := fn.X.(*ast.Ident); ok {
				switch x.Name + "." + fn.Sel.Name {
				case "time.NewTimer", "time.NewTicker", "time.After", "time.AfterFunc", "time.Tick",
					"sync.NewCond", "context.WithCancel", "context.WithTimeout", "context.WithDeadline":
					found = true
				}
			}
		}
		return true
	})
	return found
}

type siteInfo struct {
	ID   int    `json:"id"`
	File string `json:"file"`
	Line int    `json:"line"`
}

func main() {
	repo := flag.String("repo", "/repo", "repository root")
	sim := flag.String("sim", "/verif/sim", "harness sources")
	out := flag.String("out", "", "scratch directory")
	yields := flag.Bool("yields", true, "insert yield points")
	flag.Parse()
	if *out == "" {
		fmt.Fprintln(os.Stderr, "instrument: -out required")
		os.Exit(2)
	}
	replace := map[string]string{}
	var sites []siteInfo
	nLock, nFile, nYield, nFiles, nReinit := 0, 0, 0, 0, 0

	err := filepath.Walk(*repo, func(path string, info os.FileInfo, err error) error {
		if err != nil {
			return nil
		}
		rel, _ := filepath.Rel(*repo, path)
		if info.IsDir() {
			if rel == ".git" || rel == "internal/verifsim" || strings.HasPrefix(info.Name(), ".") && rel != "." {
				return filepath.SkipDir
			}
			return nil
		}
		if !strings.HasSuffix(rel, ".go") || strings.HasSuffix(rel, "_test.go") {
			return nil
		}
		dir := filepath.ToSlash(filepath.Dir(rel))
		if !under(dir, lockDirs) {
			return nil
		}
		src, rerr := os.ReadFile(path)
		if rerr != nil {
			return nil
		}
		fset := token.NewFileSet()
		f, perr := parser.ParseFile(fset, path, src, parser.ParseComments)
		if perr != nil {
			return nil
		}
		// local names of the sync and os imports
		syncName, osName := "", ""
		for _, im := range f.Imports {
			p := strings.Trim(im.Path.Value, `"`)
			name := ""
			if im.Name != nil {
				name = im.Name.Name
			}
			switch p {
			case "sync":
				if name == "" {
					name = "sync"
				}
				syncName = name
			case "os":
				if name == "" {
					name = "os"
				}
				osName = name
			}
		}
		var edits []edit
		tf := fset.File(f.Pos())
		off := func(p token.Pos) int { return tf.Offset(p) }

		ast.Inspect(f, func(n ast.Node) bool {
			se, ok := n.(*ast.SelectorExpr)
			if !ok {
				return true
			}
			id, ok := se.X.(*ast.Ident)
			if !ok || id.Obj != nil { // id.Obj != nil: a local object shadows the package name
				return true
			}
			if syncName != "" && syncName != "_" && syncName != "." && id.Name == syncName &&
				(se.Sel.Name == "Mutex" || se.Sel.Name == "RWMutex" || se.Sel.Name == "Pool") {
				edits = append(edits, edit{off(se.Pos()), off(se.End()), "rt." + se.Sel.Name, 0})
				nLock++
			}
			if osName != "" && id.Name == osName && under(dir, fileDirs) && fileAPI[se.Sel.Name] {
				edits = append(edits, edit{off(se.Pos()), off(se.End()), "rt." + se.Sel.Name, 0})
				nFile++
			}
			return true
		})

		if *yields && under(dir, yieldDirs) {
			addList := func(list []ast.Stmt) {
				for _, st := range list {
					switch st.(type) {
					case *ast.EmptyStmt, *ast.CaseClause, *ast.CommClause:
						continue
					}
					id := len(sites) + 1
					pos := fset.Position(st.Pos())
					sites = append(sites, siteInfo{ID: id, File: rel, Line: pos.Line})
					edits = append(edits, edit{off(st.Pos()), off(st.Pos()), fmt.Sprintf("rt.Yield(%d); ", id), 1})
					nYield++
				}
			}
			var inFunc func(n ast.Node) bool
			inFunc = func(n ast.Node) bool {
				switch x := n.(type) {
				case *ast.BlockStmt:
					addList(x.List)
				case *ast.CaseClause:
					addList(x.Body)
				case *ast.CommClause:
					addList(x.Body)
				}
				return true
			}
			for _, d := range f.Decls {
				fd, ok := d.(*ast.FuncDecl)
				if !ok || fd.Body == nil || fd.Name.Name == "init" {
					continue
				}
				ast.Inspect(fd.Body, inFunc)
			}
		}

		// package-level objects that must belong to the run's bubble
		var reinit []string
		for _, d := range f.Decls {
			gd, ok := d.(*ast.GenDecl)
			if !ok || gd.Tok != token.VAR {
				continue
			}
			for _, sp := range gd.Specs {
				vs, ok := sp.(*ast.ValueSpec)
				if !ok || len(vs.Values) != len(vs.Names) {
					continue
				}
				for i, val := range vs.Values {
					if vs.Names[i].Name == "_" || !bubbleBound(val) {
						continue
					}
					txt := string(src[off(val.Pos()):off(val.End())])
					if syncName != "" && syncName != "_" && syncName != "." {
						txt = strings.ReplaceAll(txt, syncName+".Mutex", "rt.Mutex")
						txt = strings.ReplaceAll(txt, syncName+".RWMutex", "rt.RWMutex")
					}
					reinit = append(reinit, fmt.Sprintf("func init() { rt.OnBoot(func() { %s = %s }) }", vs.Names[i].Name, txt))
					nReinit++
				}
			}
		}

		if len(edits) == 0 && len(reinit) == 0 {
			return nil
		}
		// import right after the package clause, on the same line
		edits = append(edits, edit{off(f.Name.End()), off(f.Name.End()), "; import " + rtImport, 0})
		sort.SliceStable(edits, func(i, j int) bool {
			if edits[i].off != edits[j].off {
				return edits[i].off < edits[j].off
			}
			return edits[i].prio > edits[j].prio // yields before a replacement starting at the same offset
		})
		var b strings.Builder
		last := 0
		for _, e := range edits {
			if e.off < last {
				continue // overlapping (cannot happen for the constructs above)
			}
			b.Write(src[last:e.off])
			b.WriteString(e.text)
			last = e.end
		}
		b.Write(src[last:])
		b.WriteString("\nvar _ = rt.Active\n")
		for _, r := range reinit {
			b.WriteString(r + "\n")
		}
		if syncName != "" && syncName != "_" && syncName != "." {
			b.WriteString("var _ " + syncName + ".WaitGroup\n")
		}
		if osName != "" && osName != "_" && osName != "." {
			b.WriteString("var _ = " + osName + ".Getpid\n")
		}
		dst := filepath.Join(*out, "src", rel)
		if err := os.MkdirAll(filepath.Dir(dst), 0o755); err != nil {
			return err
		}
		if err := os.WriteFile(dst, []byte(b.String()), 0o644); err != nil {
			return err
		}
		replace[path] = dst
		nFiles++
		return nil
	})
	if err != nil {
		fmt.Fprintln(os.Stderr, "instrument:", err)
		os.Exit(2)
	}

	// harness sources -> /repo/internal/verifsim/...
	err = filepath.Walk(*sim, func(path string, info os.FileInfo, err error) error {
		if err != nil || info.IsDir() {
			return nil
		}
		rel, _ := filepath.Rel(*sim, path)
		if !strings.HasSuffix(rel, ".go") {
			return nil
		}
		if strings.HasPrefix(filepath.ToSlash(rel), "overlay_extra/") {
			// overlay_extra/<pkg path with __ for />/<file>.go -> /repo/<pkg path>/<file>.go
			parts := strings.SplitN(filepath.ToSlash(rel), "/", 3)
			if len(parts) == 3 {
				pkg := strings.ReplaceAll(parts[1], "__", "/")
				replace[filepath.Join(*repo, pkg, parts[2])] = path
			}
			return nil
		}
		replace[filepath.Join(*repo, "internal", "verifsim", rel)] = path
		return nil
	})
	if err != nil {
		fmt.Fprintln(os.Stderr, "instrument:", err)
		os.Exit(2)
	}

	ov, _ := json.MarshalIndent(map[string]interface{}{"Replace": replace}, "", " ")
	if err := os.MkdirAll(*out, 0o755); err != nil {
		fmt.Fprintln(os.Stderr, "instrument:", err)
		os.Exit(2)
	}
	if err := os.WriteFile(filepath.Join(*out, "overlay.json"), ov, 0o644); err != nil {
		fmt.Fprintln(os.Stderr, "instrument:", err)
		os.Exit(2)
	}
	sj, _ := json.Marshal(sites)
	_ = os.WriteFile(filepath.Join(*out, "sites.json"), sj, 0o644)
	fmt.Printf("instrument: files=%d locks=%d fileio=%d yields=%d reinit=%d\n", nFiles, nLock, nFile, nYield, nReinit)
}
