module verif/instrument

go 1.21
